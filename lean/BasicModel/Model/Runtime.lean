import BasicModel.Model.Program
import BasicModel.Model.Var
import BasicModel.Model.Listing
import BasicModel.Model.Func
/-
  `src/mach/runtime.rs` — the virtual machine and its session protocol
  (`enter` / `execute` / `interrupt` / `get_listing` / `set_listing`).

  Nondeterminism is an explicit input: the entropy CLEAR draws (`Env.entropy`), the lexer
  (`Env.lex`, the real `Line::new`) and RENUM's line rewriter (`Env.lineRenum`).
-/
namespace Basic

inductive RState where
  | intro | stopped
  | listing (lo hi : Option Nat)
  | runtimeError (e : Error)
  | running | input | inputRedo | inputRunning | interrupt | inkey
deriving DecidableEq, Repr, Inhabited

inductive Event where
  | errors (es : List Error)
  | input (prompt : Str) (caps : Bool)
  | print (s : Str)
  | list (text : Str) (cols : List (Nat × Nat))
  | running | stopped
  | load (s : Str) | run (s : Str) | save (s : Str)
  | cls | inkey
deriving Inhabited

structure Runtime where
  prompt : Str := "READY.".toList
  listing : Listing := {}
  dirty : Bool := false
  program : Program := {}
  pc : Nat := 0
  tr : Option Nat := none
  tron : Bool := false
  entryAddress : Nat := 1
  stack : Array Val := #[]
  vars : Var := {}
  state : RState := .intro
  cont : RState := .stopped
  contPc : Nat := 0
  printCol : Nat := 0
  rand : Nat × Nat × Nat := (1, 1, 1)
  functions : List (Str × (Nat × Nat)) := []
deriving Inhabited

structure Env where
  /-- `Line::new` -/
  lex : Str → Line
  /-- `Line::renum` -/
  lineRenum : List (Nat × Nat) → Line → Line
  /-- what `rand::random` hands to CLEAR -/
  entropy : Nat × Nat × Nat := (1, 1, 1)

namespace Runtime

abbrev RM := ExceptT Error (StateM Runtime)

def stackOverflow : Error := (Error.mk' Code.outOfMemory).withMsg "STACK OVERFLOW"
def underflow : Error := (Error.mk' Code.internalError).withMsg "UNDERFLOW"

def liftE {α} (r : Except Error α) : RM α :=
  match r with
  | .ok a => pure a
  | .error e => throw e

/-- `Stack::push`: push, then `len > 65535` is OUT OF MEMORY -/
def push (v : Val) : RM Unit := do
  modify fun s => { s with stack := s.stack.push v }
  let s ← get
  if s.stack.size > Gen.stackMaxLen then throw stackOverflow

def pop : RM Val := do
  let s ← get
  match s.stack.back? with
  | some v => set { s with stack := s.stack.pop }; pure v
  | none => throw underflow

/-- `Stack::pop_2`: `(one, two)` with `two` the former top -/
def pop2 : RM (Val × Val) := do
  let two ← pop
  let one ← pop
  pure (one, two)

/-- `Stack::pop_n`: the top `n` values in stack order (bottom first) -/
def popN (n : Nat) : RM (List Val) := do
  let s ← get
  if n > s.stack.size then throw underflow
  else
    let k := s.stack.size - n
    set { s with stack := s.stack.extract 0 k }
    pure (s.stack.extract k s.stack.size).toList

/-- `pop_vec`: an Integer count, then that many values -/
def popVec : RM (List Val) := do
  match ← pop with
  | .int n => if n.toInt < 0 then throw underflow else popN n.toInt.toNat
  | _ => throw ((Error.mk' Code.internalError).withMsg "NO VECTOR ON STACK")

def pop1Push (f : Val → Res Val) : RM Unit := do
  let v ← pop
  push (← liftE (f v))

def pop2Push (f : Val → Val → Res Val) : RM Unit := do
  let (a, b) ← pop2
  push (← liftE (f a b))

def isFull (s : Runtime) : Bool := s.stack.size > Gen.stackMaxLen - Gen.stackFullMargin

/-- the `line_number` helper of `execute` -/
def lineNumber (s : Runtime) : Option Nat := s.program.link.lineNumberFor (s.pc - 1)

/-! ### the statements (`r#…` methods) -/

/-- `r#clear` -/
def doClear (env : Env) (s : Runtime) : Runtime :=
  { s with rand := env.entropy,
           program := { s.program with link := s.program.link.restoreData 0 },
           stack := #[], vars := s.vars.clear, functions := [], cont := .stopped }

/-- `r#end` -/
def doEnd (s : Runtime) : Runtime :=
  let s := if s.pc < s.entryAddress then { s with cont := s.state, state := s.cont, contPc := s.pc } else s
  let s := if s.pc = s.entryAddress then { s with cont := .stopped } else s
  { s with state := .stopped }

/-- `r#new_` -/
def doNew (env : Env) (s : Runtime) : Runtime :=
  let s := doClear env s
  { s with listing := s.listing.clear, dirty := true, state := .stopped, tron := false }

/-- `r#cont`; `true` = an `Event::Running` is returned to the caller -/
def doCont : RM Bool := do
  let s ← get
  if s.cont = .stopped then throw (Error.mk' Code.cantContinue)
  if s.state = .running then
    set { s with state := s.cont, cont := .stopped, pc := s.contPc }
  else throw (Error.mk' Code.cantContinue)
  let s ← get
  pure (s.state != .running)

def doDef (name : Str) : RM Unit := do
  let s ← get
  if s.pc ≥ s.entryAddress then throw (Error.mk' Code.illegalDirect)
  match ← pop with
  | .int len =>
    modify fun s => { s with functions := (name, (len.toInt.toNat, s.pc + 1)) :: s.functions.filter (·.1 ≠ name) }
  | _ => throw (Error.mk' Code.internalError)

def doDefType (f : Var → Val → Val → Res Var) : RM Unit := do
  let (a, b) ← pop2
  let s ← get
  let v ← liftE (f s.vars a b)
  modify fun s => { s with vars := v }

def doFn (name : Str) : RM Unit := do
  let args ← popVec
  let s ← get
  match s.functions.lookup name with
  | some (arity, addr) =>
    if arity = args.length then
      push (.ret s.pc)
      for a in args.reverse do
        push a
      modify fun s => { s with pc := addr }
    else throw ((Error.mk' Code.illegalFunctionCall).withMsg "WRONG NUMBER OF ARGUMENTS")
  | none => throw (Error.mk' Code.undefinedUserFunction)

/-- `r#input`; `true` = return `Event::Running` -/
def doInput (name : Str) : RM Bool := do
  let s ← get
  if s.state = .running then
    set { s with state := .input, pc := s.pc - 1 }
    pure true
  else if s.state = .inputRunning then
    if name.isEmpty then
      modify fun s => { s with state := .running }
      let _ ← pop; let _ ← pop; let _ ← pop; let _ ← pop
      pure false
    else
      match ← pop with
      | .str field =>
        let field := RStd.trim field
        if name.getLast? = some '$' then
          let field := if field.length ≥ 2 && field.head? = some '"' && field.getLast? = some '"'
            then (field.drop 1).dropLast else field
          push (.str field)
        else if field.isEmpty then push (.int 0)
        else push (Val.ofStr field)
        pure false
      | _ => throw (Error.mk' Code.internalError)
  else throw (Error.mk' Code.internalError)

def doLetMid : RM Unit := do
  let pos ← liftE (← pop).toUsize
  let len ← liftE (← pop).toUsize
  let ins ← liftE (← pop).toStr
  if pos = 0 then throw ((Error.mk' Code.illegalFunctionCall).withMsg "POSITION IS ZERO")
  let orig ← liftE (← pop).toStr
  -- characters from position `pos` on are replaced while both `len` and `ins` last
  let n := min len ins.length
  let head := orig.take (pos - 1)
  let tail := orig.drop (pos - 1)
  let k := min n tail.length
  push (.str (head ++ ins.take k ++ tail.drop k))

def doList : RM Unit := do
  let (a, b) ← pop2
  let lo ← liftE a.toLineNumber
  let hi ← liftE b.toLineNumber
  modify fun s => { s with state := .listing lo hi }

def doNext (name : Str) : RM Unit := do
  -- fuel: every iteration pops at least one value
  let rec loop : Nat → RM Unit
    | 0 => throw (Error.mk' Code.nextWithoutFor)
    | fuel+1 => do
      let s ← get
      let nextAddr ← (match s.stack.back? with
        | some (.nxt a) => do let _ ← pop; pure a
        | some _ => do let _ ← pop; throw (Error.mk' Code.nextWithoutFor)
        | none => throw (Error.mk' Code.nextWithoutFor))
      let varNameVal ← pop
      let stepVal ← pop
      let toVal ← pop
      match varNameVal with
      | .str varName =>
        if !name.isEmpty && varName ≠ name then loop fuel
        else
          let s ← get
          let cur ← liftE (s.vars.fetch varName)
          let cur ← liftE (Ops.sum cur stepVal)
          let v ← liftE (s.vars.store varName cur)
          modify fun s => { s with vars := v }
          match stepVal.toF64 with
          | .ok step =>
            let done ← liftE (if step < 0 then Ops.less cur toVal else Ops.less toVal cur)
            if done ≠ .int (-1) then
              push toVal; push stepVal; push (.str varName); push (.nxt nextAddr)
              modify fun s => { s with pc := nextAddr }
          | .error _ => loop fuel
      | _ => loop fuel
  let s ← get
  loop (s.stack.size + 2)

def doOn : RM Unit := do
  let select ← liftE (← pop).toI16
  let len ← liftE (← pop).toI16
  if select.toInt < 0 || len.toInt < 0 then throw (Error.mk' Code.illegalFunctionCall)
  if select.toInt = 0 || select.toInt > len.toInt then
    modify fun s => { s with pc := s.pc + len.toInt.toNat }
  else
    modify fun s => { s with pc := s.pc + (select.toInt.toNat - 1) }

/-- `r#print`: the text and the new column -/
def doPrint : RM Event := do
  let item ← pop
  let text := match item with
    | .str s => s
    | v => v.display ++ [' ']
  modify fun s => { s with printCol := text.foldl (fun c ch => if ch = '\n' then 0 else c + 1) s.printCol }
  pure (.print text)

def doRead : RM Unit := do
  let s ← get
  let (l, r) := s.program.link.readData
  set { s with program := { s.program with link := l } }
  push (← liftE r)

def doRenum (env : Env) : RM Event := do
  let s ← get
  if s.pc < s.entryAddress then throw (Error.mk' Code.illegalDirect)
  if !s.listing.indirectErrors.isEmpty then pure (.errors s.listing.indirectErrors)
  else
    let step ← liftE (← pop).toU16
    let oldStart ← liftE (← pop).toU16
    let newStart ← liftE (← pop).toU16
    let s ← get
    let l ← liftE (s.listing.renum env.lineRenum newStart oldStart step)
    set { s with listing := l, dirty := true, cont := .stopped, stack := #[], functions := [], state := .stopped }
    modify doEnd
    pure .stopped

def doDelete : RM Event := do
  let (a, b) ← pop2
  let lo ← liftE a.toLineNumber
  let hi ← liftE b.toLineNumber
  let s ← get
  let (l, removed) := s.listing.removeRange lo hi
  if removed then
    set { s with listing := l, dirty := true, state := .stopped, cont := .stopped, stack := #[], functions := [] }
  modify doEnd
  pure .stopped

def doReturn : RM Unit := do
  let rec loop : Nat → Option Val → Bool → RM Unit
    | 0, _, _ => throw (Error.mk' Code.returnWithoutGosub)
    | fuel+1, retVal, first => do
      let s ← get
      match s.stack.back? with
      | none => throw (Error.mk' Code.returnWithoutGosub)
      | some (.ret addr) =>
        let _ ← pop
        match retVal with
        | some v => push v
        | none => pure ()
        modify fun s => { s with pc := addr }
      | some v =>
        let _ ← pop
        let keep := first && (match v with | .str _ | .sng _ | .dbl _ | .int _ => true | _ => false)
        loop fuel (if keep then some v else retVal) false
  let s ← get
  loop (s.stack.size + 1) none true

def doSwap : RM Unit := do
  let (v1, v2) ← pop2
  if v1.ty = v2.ty && v1.isNumeric || (v1.ty = .str && v2.ty = .str) then
    push v1; push v2
  else
    push v2; push v1
    throw (Error.mk' Code.typeMismatch)

def fileOp (mk : Str → Event) (needDirect : Bool) : RM Event := do
  match ← pop with
  | .str s =>
    modify doEnd
    let st ← get
    if needDirect && st.pc < st.entryAddress then throw (Error.mk' Code.illegalDirect)
    else pure (mk s)
  | _ => throw (Error.mk' Code.typeMismatch)

/-- result of executing one instruction -/
inductive Step where
  | continue
  | event (e : Event)

/-- one iteration of the `for` loop of `execute_loop` -/
def step (env : Env) (hasIndirectErrors : Bool) : RM Step := do
  let s ← get
  -- trace
  let traced ← (do
    if s.tron then
      let tr := s.program.link.lineNumberFor s.pc
      if tr ≠ s.tr then
        set { s with tr := tr }
        match tr with
        | some num =>
          let text := '[' :: RStd.natDigits num ++ [']']
          modify fun s => { s with printCol := s.printCol + text.length }
          pure (some (Step.event (.print text)))
        | none => pure none
      else pure none
    else pure none)
  match traced with
  | some r => pure r
  | none =>
  let s ← get
  match s.program.link.ops[s.pc]? with
  | none => throw ((Error.mk' Code.internalError).withMsg "INVALID PC ADDRESS")
  | some op =>
    set { s with pc := s.pc + 1 }
    match op with
    | .literal v => do push v; pure .continue
    | .pop name => do
      let v ← pop
      let s ← get
      let vars ← liftE (s.vars.store name v)
      set { s with vars := vars }
      pure .continue
    | .push name => do
      let s ← get
      push (← liftE (s.vars.fetch name))
      pure .continue
    | .popArr name => do
      let vec ← popVec
      let v ← pop
      let s ← get
      let (vars, r) := s.vars.storeArray name vec v
      set { s with vars := vars }
      liftE r
      pure .continue
    | .pushArr name => do
      let vec ← popVec
      let s ← get
      let (vars, r) := s.vars.fetchArray name vec
      set { s with vars := vars }
      push (← liftE r)
      pure .continue
    | .dimArr name => do
      let vec ← popVec
      let s ← get
      let vars ← liftE (s.vars.dimensionArray name vec)
      set { s with vars := vars }
      pure .continue
    | .eraseArr name => do
      let s ← get
      let vars ← liftE (s.vars.eraseArray name)
      set { s with vars := vars }
      pure .continue
    | .ifNot addr => do
      let isZero ← (do
        match ← pop with
        | .int n => pure (n == 0)
        | .sng b => pure (F.f32 b == 0)
        | .dbl b => pure (F.f64 b == 0)
        | _ => throw (Error.mk' Code.typeMismatch))
      if isZero then modify fun s => { s with pc := addr }
      pure .continue
    | .jump addr => do
      modify fun s => { s with pc := addr }
      let s ← get
      if hasIndirectErrors && s.pc < s.entryAddress then
        set { s with state := .stopped, cont := .stopped }
        pure (.event (.errors s.listing.indirectErrors))
      else pure .continue
    | .clear => do modify (doClear env); pure .continue
    | .cls => pure (.event .cls)
    | .cont => do
      if ← doCont then pure (.event .running) else pure .continue
    | .def name => do doDef name; pure .continue
    | .defdbl => do doDefType Var.defdbl; pure .continue
    | .defint => do doDefType Var.defint; pure .continue
    | .defsng => do doDefType Var.defsng; pure .continue
    | .defstr => do doDefType Var.defstr; pure .continue
    | .delete => do pure (.event (← doDelete))
    | .end => do modify doEnd; pure (.event .stopped)
    | .fn name => do doFn name; pure .continue
    | .input name => do
      if ← doInput name then pure (.event .running) else pure .continue
    | .letMid => do doLetMid; pure .continue
    | .list => do doList; pure (.event .running)
    | .load => do pure (.event (← fileOp .load true))
    | .loadRun => do pure (.event (← fileOp .run false))
    | .new => do modify (doNew env); pure (.event .stopped)
    | .on => do doOn; pure .continue
    | .next name => do doNext name; pure .continue
    | .print => do pure (.event (← doPrint))
    | .read => do doRead; pure .continue
    | .renum => do pure (.event (← doRenum env))
    | .restore addr => do
      modify fun s => { s with program := { s.program with link := s.program.link.restoreData addr } }
      pure .continue
    | .return => do doReturn; pure .continue
    | .save => do pure (.event (← fileOp .save true))
    | .stop => throw (Error.mk' Code.break)
    | .swap => do doSwap; pure .continue
    | .troff => do modify fun s => { s with tron := false }; pure .continue
    | .tron => do
      modify fun s => { s with tron := true, tr := s.program.link.lineNumberFor (s.pc - 1) }
      pure .continue
    | .neg => do pop1Push Ops.negate; pure .continue
    | .pow => do pop2Push Ops.power; pure .continue
    | .mul => do pop2Push Ops.multiply; pure .continue
    | .div => do pop2Push Ops.divide; pure .continue
    | .divInt => do pop2Push Ops.divint; pure .continue
    | .mod => do pop2Push Ops.remainder; pure .continue
    | .add => do pop2Push Ops.sum; pure .continue
    | .sub => do pop2Push Ops.subtract; pure .continue
    | .eq => do pop2Push Ops.equal; pure .continue
    | .notEq => do pop2Push Ops.notEqual; pure .continue
    | .lt => do pop2Push Ops.less; pure .continue
    | .ltEq => do pop2Push Ops.lessEqual; pure .continue
    | .gt => do pop2Push Ops.greater; pure .continue
    | .gtEq => do pop2Push Ops.greaterEqual; pure .continue
    | .not => do pop1Push Ops.not; pure .continue
    | .and => do pop2Push Ops.and; pure .continue
    | .or => do pop2Push Ops.or; pure .continue
    | .xor => do pop2Push Ops.xor; pure .continue
    | .imp => do pop2Push Ops.imp; pure .continue
    | .eqv => do pop2Push Ops.eqv; pure .continue
    | .abs => do pop1Push Func.abs; pure .continue
    | .asc => do pop1Push Func.asc; pure .continue
    | .atn => do pop1Push Func.atn; pure .continue
    | .cdbl => do pop1Push Func.cdbl; pure .continue
    | .chr => do pop1Push Func.chr; pure .continue
    | .cint => do pop1Push Func.cint; pure .continue
    | .cos => do pop1Push Func.cos; pure .continue
    | .csng => do pop1Push Func.csng; pure .continue
    | .date => do push (.str "01-01-2000".toList); pure .continue
    | .exp => do pop1Push Func.exp; pure .continue
    | .fix => do pop1Push Func.fix; pure .continue
    | .hex => do pop1Push Func.hex; pure .continue
    | .inkey => do
      modify fun s => { s with state := .inkey }
      pure (.event .inkey)
    | .instr => do
      let vec ← popVec
      push (← liftE (Func.instr vec))
      pure .continue
    | .int => do pop1Push Func.int; pure .continue
    | .left => do pop2Push Func.left; pure .continue
    | .len => do pop1Push Func.len; pure .continue
    | .log => do pop1Push Func.log; pure .continue
    | .mid => do
      let vec ← popVec
      push (← liftE (Func.mid vec))
      pure .continue
    | .oct => do pop1Push Func.oct; pure .continue
    | .pos => do
      let _ ← popVec
      let s ← get
      push (← liftE (Func.pos s.printCol))
      pure .continue
    | .right => do pop2Push Func.right; pure .continue
    | .rnd => do
      let vec ← popVec
      let s ← get
      let (st, v) ← liftE (Func.rnd s.rand vec)
      set { s with rand := st }
      push v
      pure .continue
    | .spc => do pop1Push Func.spc; pure .continue
    | .sgn => do pop1Push Func.sgn; pure .continue
    | .sin => do pop1Push Func.sin; pure .continue
    | .sqr => do pop1Push Func.sqr; pure .continue
    | .str => do pop1Push Func.str; pure .continue
    | .string => do pop2Push Func.string; pure .continue
    | .tab => do
      let v ← pop
      let s ← get
      push (← liftE (Func.tab s.printCol v))
      pure .continue
    | .tan => do pop1Push Func.tan; pure .continue
    | .time => do push (.str "00:00:00".toList); pure .continue
    | .val => do pop1Push Func.val; pure .continue

/-- `execute_loop`: at most `n` instructions -/
def executeLoop (env : Env) (n : Nat) : RM Event := do
  let s ← get
  let hasIndirectErrors := !s.listing.indirectErrors.isEmpty
  let rec loop : Nat → RM Event
    | 0 => pure .running
    | k+1 => do
      match ← step env hasIndirectErrors with
      | .continue => loop k
      | .event e => pure e
  loop n

/-- `ready_prompt` -/
def readyPrompt (s : Runtime) : Runtime × Option Event :=
  if s.entryAddress ≠ 0 then
    let text := (if s.printCol > 0 then ['\n'] else []) ++ (if s.prompt.isEmpty then [] else s.prompt ++ ['\n'])
    ({ s with entryAddress := 0, printCol := 0 }, some (.print text))
  else (s, none)

/-- `execute_input` -/
def executeInput : RM Event := do
  let len ← pop
  let caps ← pop
  let s ← get
  let prompt ← (match s.stack.back? with
    | some (.str p) => pure p
    | _ => throw (Error.mk' Code.internalError))
  let isCaps := caps ≠ .int 0
  push caps
  push len
  modify fun s => { s with printCol := 0 }
  pure (.input (prompt ++ ['?', ' ']) isCaps)

def introText : Str := "64K BASIC 0.7.1\n".toList

/-- `Runtime::execute` -/
def execute (env : Env) (s : Runtime) (iterations : Nat) : Runtime × Event :=
  -- first `match &self.state`
  let pre : Runtime × Option Event :=
    match s.state with
    | .intro => ({ s with state := .stopped }, some (.print introText))
    | .stopped =>
      match readyPrompt s with
      | (s, some e) => (s, some e)
      | (s, none) => (s, some .stopped)
    | .interrupt => ({ s with state := .runtimeError ((Error.mk' Code.break).inLine (lineNumber s)) }, none)
    | .listing lo hi =>
      match s.listing.listLine lo hi with
      | some ((text, cols), (lo', hi')) =>
        ({ s with state := .listing lo' hi', printCol := 0 }, some (.list text cols))
      | none => ({ s with state := .running }, none)
    | .input =>
      let (r, s') := (executeInput.run).run s
      match r with
      | .ok e => (s', some e)
      | .error e => ({ s' with state := .runtimeError (e.inLine (lineNumber s')) }, none)
    | .inputRedo => ({ s with state := .input }, some (.errors [Error.mk' Code.redoFromStart]))
    | .inputRunning | .running =>
      if !s.listing.directErrors.isEmpty then
        ({ s with state := .stopped }, some (.errors s.listing.directErrors))
      else (s, none)
    | .inkey | .runtimeError _ => (s, none)
  match pre with
  | (s, some e) => (s, e)
  | (s, none) =>
    match s.state with
    | .runtimeError err =>
      if s.printCol > 0 then ({ s with printCol := 0 }, .print ['\n'])
      else ({ s with state := .stopped }, .errors [err])
    | _ =>
      let (r, s) := ((executeLoop env iterations).run).run s
      match r with
      | .ok event =>
        match s.state, event with
        | .stopped, .stopped =>
          (match readyPrompt s with
           | (s, some e) => (s, e)
           | (s, none) => (s, event))
        | _, _ => (s, event)
      | .error error =>
        if s.state = .inputRunning then
          -- unwind to the Return pushed when the reply was accepted
          let rec unwind : Nat → Array Val → Array Val × Option Nat
            | 0, st => (st, none)
            | k+1, st =>
              match st.back? with
              | none => (st, none)
              | some (.ret a) => (st.pop, some a)
              | some _ => unwind k st.pop
          let (st, addr) := unwind (s.stack.size + 1) s.stack
          let s := { s with stack := st, pc := addr.getD s.pc, state := .inputRedo }
          (s, .running)
        else
          let s := { s with cont := s.state, state := .runtimeError (error.inLine (lineNumber s)), contPc := s.pc }
          let s := if s.pc ≥ s.entryAddress || isFull s then { s with stack := #[], cont := .stopped } else s
          (s, .running)

/-! ### `enter` -/

def enterDirect (s : Runtime) (line : Line) : Runtime :=
  let s := if s.dirty then
      { s with program := (s.program.clear).codegenLines s.listing.lines, dirty := false }
    else s
  let p := (s.program.codegenLine line).linkProg
  { s with program := p, pc := p.directAddress, tr := none, entryAddress := p.directAddress,
           listing := { s.listing with indirectErrors := p.indirectErrors, directErrors := p.errors },
           state := .running }

def enterIndirect (s : Runtime) (line : Line) : Runtime :=
  let s := { s with cont := .stopped, stack := #[], functions := [] }
  if line.tokens.isEmpty then
    let (l, removed) := s.listing.remove line.number
    if removed then { s with listing := l, dirty := true } else s
  else { s with listing := s.listing.insert line, dirty := true }

def doInputReply (s : Runtime) (string : Str) : Runtime × Except Error Unit :=
  match s.stack.back? with
  | some (.int n) =>
    let len : Int := n.toInt
    let fields : Option (List Str) :=
      if 0 ≤ len && len ≤ 1 then some [string]
      else
        -- split at commas outside double quotes
        let rec split : Str → Bool → Str → List Str → List Str
          | [], _, cur, acc => acc ++ [cur.reverse]
          | c :: cs, inq, cur, acc =>
            if c = '"' then split cs (!inq) (c :: cur) acc
            else if c = ',' && !inq then split cs inq [] (acc ++ [cur.reverse])
            else split cs inq (c :: cur) acc
        let fs := split string false [] []
        if len = (fs.length : Int) then some fs else none
    match fields with
    | none => ({ s with state := .inputRedo }, .ok ())
    | some fs =>
      let m : RM Unit := do
        let st ← get
        push (.ret st.pc)
        for f in fs.reverse do
          push (.str f)
        modify fun s => { s with state := .inputRunning }
      let (r, s) := (m.run).run s
      (s, r)
  | _ => (s, .error (Error.mk' Code.internalError))

/-- `Runtime::enter`; `line` is `Line::new(string)` -/
def enter (env : Env) (s : Runtime) (string : Str) : Runtime :=
  match s.state with
  | .input =>
    let s :=
      if RStd.utf8Len string > Gen.maxLineLen then { s with state := .inputRedo }
      else match doInputReply s string with
        | (s, .ok ()) => s
        | (s, .error e) => { doClear env s with state := .runtimeError e }
    { s with printCol := 0 }
  | .inkey =>
    let string := if RStd.utf8Len string > Gen.maxLineLen then [] else string
    let (r, s) := ((push (.str string)).run).run s
    let s := match r with
      | .ok () => s
      | .error e => { doClear env s with state := .runtimeError e }
    { s with state := .running }
  | _ =>
    if RStd.utf8Len string > Gen.maxLineLen then
      { s with state := .runtimeError (Error.mk' Code.lineBufferOverflow) }
    else
      let line := env.lex string
      if line.number.isNone then
        if line.tokens.isEmpty then s else enterDirect s line
      else if RStd.utf8Len (printLine line.number line.tokens) > Gen.maxLineLen then
        -- fix D19: the LISTED line must fit the line buffer too, or it could not be entered/loaded again
        { s with state := .runtimeError (Error.mk' Code.lineBufferOverflow) }
      else enterIndirect s line

/-- `Runtime::interrupt` -/
def interrupt (s : Runtime) : Runtime :=
  let s := { s with cont := s.state, state := .interrupt, contPc := s.pc }
  if s.pc ≥ s.entryAddress then { s with cont := .stopped, stack := #[] } else s

/-- `Runtime::set_listing` -/
def setListing (env : Env) (s : Runtime) (listing : Listing) (run : Bool) : Runtime :=
  let s := doNew env s
  let s := { s with listing := listing }
  if run then enter env s "RUN".toList else s

end Runtime
end Basic
