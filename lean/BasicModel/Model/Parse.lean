import BasicModel.Model.Ast
import BasicModel.Model.Fmt
import BasicModel.Gen.Prec
/-
  `src/lang/parse.rs` — recursive-descent parser, function by function.
  State = remaining tokens, the one-token look-ahead, the remark flag and the current column range.
  Recursion takes fuel (the Rust code recurses on the native stack); running out is a `fault`.
-/
namespace Basic
namespace Parse

structure PState where
  toks : List Token
  peeked : Option Token := none
  rem : Bool := false
  cs : Nat := 0
  ce : Nat := 0
deriving Inhabited

abbrev PM := StateT PState (Except Error)

def isRem : Token → Bool
  | .word .rem1 | .word .rem2 => true
  | _ => false

/-- the loop of `BasicParser::next`: skips whitespace and everything from a remark on -/
def nextLoop : List Token → Bool → Nat → Nat → (Option Token × List Token × Bool × Nat × Nat)
  | [], rem, _, ce => (none, [], rem, ce, ce)
  | t :: ts, rem, _, ce =>
    let rem := rem || isRem t
    if rem then nextLoop ts rem ce ce
    else
      let ce' := ce + t.text.length
      match t with
      | .whitespace _ => nextLoop ts rem ce ce'
      | _ => (some t, ts, rem, ce, ce')

def next : PM (Option Token) := do
  let s ← get
  match s.peeked with
  | some t => set { s with peeked := none }; pure (some t)
  | none =>
    let (t, ts, rem, cs, ce) := nextLoop s.toks s.rem s.cs s.ce
    set { s with toks := ts, rem := rem, cs := cs, ce := ce }
    pure t

def peek : PM (Option Token) := do
  let s ← get
  match s.peeked with
  | some t => pure (some t)
  | none =>
    let t ← next
    modify fun s => { s with peeked := t }
    pure t

def col : PM Col := do let s ← get; pure (s.cs, s.ce)

def fail {α} (code : Nat) (c : Col) (msg : String) : PM α :=
  throw ((Error.mk' code).inCol c.1 c.2 |>.withMsg msg)

def failHere {α} (code : Nat) (msg : String) : PM α := do
  let c ← col
  fail code c msg

def maybe (tok : Token) : PM Bool := do
  match ← peek with
  | some t => if t = tok then do let _ ← next; pure true else pure false
  | none => pure false

def expectMsg : Token → String
  | .unknown _ | .whitespace _ => "EXPECTED THE IMPOSSIBLE"
  | .literal _ => "EXPECTED LITERAL"
  | .word .then => "EXPECTED THEN"
  | .word .to => "EXPECTED TO"
  | .word _ => "EXPECTED STATEMENT WORD"
  | .operator .equal => "EXPECTED EQUALS SIGN"
  | .operator _ => "EXPECTED OPERATOR"
  | .ident _ => "EXPECTED IDENTIFIER"
  | .lparen => "EXPECTED LEFT PARENTHESIS"
  | .rparen => "EXPECTED RIGHT PARENTHESIS"
  | .comma => "EXPECTED COMMA"
  | .colon => "EXPECTED COLON"
  | .semicolon => "EXPECTED SEMICOLON"

def expect (tok : Token) : PM Unit := do
  match ← next with
  | some t => if t = tok then pure () else failHere Code.syntaxError (expectMsg tok)
  | none => failHere Code.syntaxError (expectMsg tok)

/-- statement terminators: end of line, `:` or ELSE -/
def isEnd : Option Token → Bool
  | none | some .colon | some (.word .else) => true
  | _ => false

def isUserFunction (i : TIdent) : Bool := "FN".toList.isPrefixOf i.name

def FN_RESERVED := "FN RESERVED FOR FUNCTIONS"
def ARRAY_NOT_ALLOWED := "ARRAY NOT ALLOWED"
def EXPECTED_VARIABLE := "EXPECTED VARIABLE"

/-- the text of a numeric literal after `replace('D',"E")` and dropping one type suffix -/
def numText (s : Str) : Str :=
  let s := s.map fun c => if c = 'D' then 'E' else c
  match s.getLast? with
  | some '!' | some '#' | some '%' => s.dropLast
  | _ => s

/-- `Expression::literal` -/
def literal (c : Col) : Literal → PM Expr
  | .hex s => match Fmt.parseI16Radix s 16 with
    | some n => pure (.integer c n)
    | none => fail Code.overflow c ""
  | .octal s => match Fmt.parseI16Radix s 8 with
    | some n => pure (.integer c n)
    | none => fail Code.overflow c ""
  | .single s => match Fmt.parseF32 (numText s) with
    | some b => pure (.single c b)
    | none => fail Code.typeMismatch c ""
  | .double s => match Fmt.parseF64 (numText s) with
    | some b => pure (.double c b)
    | none => fail Code.typeMismatch c ""
  | .integer s => match Fmt.parseI16 (numText s) with
    | some n => pure (.integer c n)
    | none => fail Code.typeMismatch c ""
  | .string s =>
    if s.length > 255 then fail Code.stringTooLong c "MAXIMUM LITERAL LENGTH IS 255"
    else pure (.string c s)

abbrev VarMap := List (TIdent × Variable)

def outOfFuel {α} : PM α := throw ((Error.mk' Code.fault).withMsg "parser recursion (native stack in the Rust code)")

mutual
/-- `descend` of `Expression::expect` -/
def descend (fuel : Nat) (vm : VarMap) (prec : Nat) : PM Expr := do
  match fuel with
  | 0 => outOfFuel
  | fuel+1 =>
    let lhs ← (do
      match ← next with
      | some .lparen =>
        let e ← descend fuel vm 0
        expect .rparen
        pure e
      | some (.ident ident) =>
        let c ← col
        match ← peek with
        | some .lparen =>
          expect .lparen
          let es ← (do
            if ← maybe .rparen then pure []
            else
              let es ← exprList fuel vm
              expect .rparen
              pure es)
          let c2 ← col
          pure (Expr.var (.array (c.1, c2.2) ident es))
        | _ =>
          if isUserFunction ident then fail Code.syntaxError c FN_RESERVED
          else match vm.lookup ident with
            | some v => pure (Expr.var v)
            | none => pure (Expr.var (.unary c ident))
      | some (.operator .plus) => descend fuel vm (Gen.unaryPrec .plus)
      | some (.operator .minus) =>
        let c ← col
        let e ← descend fuel vm (Gen.unaryPrec .minus)
        pure (Expr.neg c e)
      | some (.operator .not) =>
        let c ← col
        let e ← descend fuel vm (Gen.unaryPrec .not)
        pure (Expr.not c e)
      | some (.literal lit) =>
        let c ← col
        literal c lit
      | _ => failHere Code.syntaxError "EXPECTED EXPRESSION")
    binLoop fuel vm prec lhs

/-- the `while let Some(Token::Operator(op)) = parse.peek()` loop of `descend` -/
def binLoop (fuel : Nat) (vm : VarMap) (prec : Nat) (lhs : Expr) : PM Expr := do
  match fuel with
  | 0 => outOfFuel
  | fuel+1 =>
    match ← peek with
    | some (.operator op) =>
      let opPrec := Gen.binaryPrec op
      if opPrec ≤ prec then pure lhs
      else
        let _ ← next
        let c ← col
        let rhs ← descend fuel vm opPrec
        match BinOp.ofOperator op with
        | some b => binLoop fuel vm prec (Expr.bin b c lhs rhs)
        | none => throw (Error.mk' Code.internalError)
    | _ => pure lhs

/-- `expect_fn_expression_list` -/
def exprList (fuel : Nat) (vm : VarMap) : PM (List Expr) := do
  match fuel with
  | 0 => outOfFuel
  | fuel+1 =>
    let e ← descend fuel vm 0
    if ← maybe .comma then
      let rest ← exprList fuel vm
      pure (e :: rest)
    else pure [e]
end

def expression (fuel : Nat) : PM Expr := descend fuel [] 0

/-- `expect_print_list`; `linefeed` is the loop-carried flag -/
def printList (fuel : Nat) : Nat → Bool → List Expr → PM (List Expr)
  | 0, _, _ => outOfFuel
  | n+1, linefeed, acc => do
    let t ← peek
    if isEnd t then
      let c ← col
      if linefeed then pure (acc ++ [Expr.string (c.2, c.2) ['\n']]) else pure acc
    else match t with
      | some .semicolon => do let _ ← next; printList fuel n false acc
      | some .comma => do
        let _ ← next
        let c ← col
        printList fuel n false
          (acc ++ [Expr.var (.array c (.string "TAB".toList) [Expr.integer c (Gen.printZone)])])
      | _ => do
        let e ← expression fuel
        printList fuel n true (acc ++ [e])

/-- `expect_ident` -/
def expectIdent : PM (Col × TIdent) := do
  match ← next with
  | some (.ident ident) =>
    let c ← col
    if isUserFunction ident then fail Code.syntaxError c FN_RESERVED
    else match ← peek with
      | some .lparen => fail Code.syntaxError c ARRAY_NOT_ALLOWED
      | _ => pure (c, ident)
  | _ => failHere Code.syntaxError EXPECTED_VARIABLE

/-- `expect_ident_list` -/
def identList : Nat → Bool → List (Col × TIdent) → PM (List (Col × TIdent))
  | 0, _, _ => outOfFuel
  | n+1, expecting, acc => do
    let t ← peek
    if isEnd t && !expecting then pure acc
    else
      let i ← expectIdent
      if ← maybe .comma then identList n true (acc ++ [i]) else pure (acc ++ [i])

/-- `expect_var` -/
def expectVar (fuel : Nat) : PM Variable := do
  match ← next with
  | some (.ident ident) =>
    let c ← col
    if isUserFunction ident then fail Code.syntaxError c FN_RESERVED
    else match ← peek with
      | some .lparen =>
        expect .lparen
        let es ← exprList fuel []
        expect .rparen
        let c2 ← col
        pure (.array (c.1, c2.2) ident es)
      | _ => pure (.unary c ident)
  | _ => failHere Code.syntaxError EXPECTED_VARIABLE

/-- `expect_var_list` -/
def varList (fuel : Nat) : Nat → PM (List Variable)
  | 0 => outOfFuel
  | n+1 => do
    let v ← expectVar fuel
    if ← maybe .comma then
      let rest ← varList fuel n
      pure (v :: rest)
    else pure [v]

/-- `maybe_line_number` -/
def maybeLineNumber : PM (Option Nat) := do
  let str : Option Str := match ← peek with
    | some (.literal (.integer s)) => some s
    | some (.literal (.single s)) => some s
    | some (.literal (.double s)) => some s
    | _ => none
  match str with
  | some s =>
    let _ ← next
    match Fmt.parseU16 s with
    | some n => if n ≤ maxLineNumber then pure (some n) else failHere Code.undefinedLine "INVALID LINE NUMBER"
    | none => failHere Code.undefinedLine "INVALID LINE NUMBER"
  | none => pure none

def lineExpr (c : Col) (n : Nat) : Expr := .single c (F.b32 (Float32.ofNat n))

/-- `expect_line_number` -/
def expectLineNumber : PM Expr := do
  match ← maybeLineNumber with
  | some n => let c ← col; pure (lineExpr c n)
  | none => failHere Code.syntaxError "EXPECTED LINE NUMBER"

/-- `expect_line_number_list` -/
def lineNumberList : Nat → Bool → List Expr → PM (List Expr)
  | 0, _, _ => outOfFuel
  | n+1, expecting, acc => do
    let t ← peek
    if isEnd t && !expecting then pure acc
    else
      let e ← expectLineNumber
      if ← maybe .comma then lineNumberList n true (acc ++ [e]) else pure (acc ++ [e])

/-- `expect_line_number_range` -/
def lineNumberRange : PM (Expr × Expr) := do
  let c0 ← col
  let (from_, fromNum, toNum0) ← (do
    match ← maybeLineNumber with
    | some n => let c ← col; pure (lineExpr c n, n, n)
    | none => let c ← col; pure (lineExpr (c.1, c.1) 0, 0, maxLineNumber))
  let (to_, toNum) ← (do
    if ← maybe (.operator .minus) then
      match ← maybeLineNumber with
      | some n => let c ← col; pure (lineExpr c n, n)
      | none => let c ← col; pure (lineExpr (c.1, c.1) maxLineNumber, maxLineNumber)
    else
      let c ← col
      pure (lineExpr (c.1, c.1) toNum0, toNum0))
  if fromNum > toNum then
    let c ← col
    fail Code.undefinedLine (c0.1, c.2) "INVALID RANGE"
  else pure (from_, to_)

/-- `expect_var_range` (DEFINT A-C) -/
def varRange : PM (Variable × Variable) := do
  let (fc, fi) ← expectIdent
  let (tc, ti) ← (do
    if ← maybe (.operator .minus) then expectIdent else pure (fc, fi))
  let fromChar ← (match fi with
    | .plain [c] => pure c
    | _ => fail Code.syntaxError fc "")
  let toChar ← (match ti with
    | .plain [c] => pure c
    | _ => fail Code.syntaxError tc "")
  if toChar.val < fromChar.val then fail Code.syntaxError (fc.1, tc.2) ""
  else pure (.unary fc fi, .unary tc ti)

/-- `Ident::from((&fn_ident, &param_ident))`: the mangled parameter name `FNX.P`, typed like the parameter -/
def mangle (fnIdent param : TIdent) : TIdent :=
  let s := fnIdent.name ++ '.' :: param.name
  match param with
  | .plain _ => .plain s
  | .string _ => .string s
  | .single _ => .single s
  | .double _ => .double s
  | .integer _ => .integer s

/-- skip to the end of the statement (CLEAR ignores its arguments) -/
def skipToEnd : Nat → PM Unit
  | 0 => outOfFuel
  | n+1 => do
    if isEnd (← peek) then pure () else do let _ ← next; skipToEnd n

mutual
/-- `expect_statements` -/
def statements (fuel : Nat) (expectColon : Bool) (acc : List Stmt) : PM (List Stmt) := do
  match fuel with
  | 0 => outOfFuel
  | fuel+1 =>
    match ← peek with
    | none | some (.word .else) => pure acc
    | some .colon => do let _ ← next; statements fuel false acc
    | some _ =>
      if expectColon then failHere Code.syntaxError "UNEXPECTED TOKEN"
      else
        let s ← statement fuel
        statements fuel true (acc ++ [s])

/-- `Statement::expect` and the per-statement parsers -/
def statement (fuel : Nat) : PM Stmt := do
  match fuel with
  | 0 => outOfFuel
  | fuel+1 =>
    match ← peek with
    | some (.ident _) => letStmt fuel true
    | some (.word w) =>
      let _ ← next
      match w with
      | .clear => do let c ← col; skipToEnd fuel; pure (.clear c)
      | .cls => do pure (.cls (← col))
      | .cont => do pure (.cont (← col))
      | .data => do let es ← exprList fuel []; pure (.data (← col) es)
      | .def => defStmt fuel
      | .defdbl => do let (a, b) ← varRange; pure (.defdbl (← col) a b)
      | .defint => do let (a, b) ← varRange; pure (.defint (← col) a b)
      | .defsng => do let (a, b) ← varRange; pure (.defsng (← col) a b)
      | .defstr => do let (a, b) ← varRange; pure (.defstr (← col) a b)
      | .delete => do
        let c ← col
        -- a bare DELETE is refused here (fix D17); the runtime deletes whatever range it is given
        if isEnd (← peek) then throw ((Error.mk' Code.illegalFunctionCall).inCol c.1 c.2)
        let (a, b) ← lineNumberRange; pure (.delete c a b)
      | .dim => do let c ← col; let vs ← varList fuel fuel; pure (.dim c vs)
      | .end => do pure (.end (← col))
      | .erase => do
        let c ← col
        let ids ← identList fuel false []
        if ids.isEmpty then fail Code.syntaxError (c.1, c.1) "EXPECTED VARIABLE"
        else pure (.erase c (ids.map fun (ic, i) => .unary ic i))
      | .for => do
        let c ← col
        let (ic, i) ← expectIdent
        expect (.operator .equal)
        let a ← expression fuel
        expect (.word .to)
        let b ← expression fuel
        let s ← (do
          if ← maybe (.word .step) then expression fuel
          else let c2 ← col; pure (Expr.integer (c2.2, c2.2) 1))
        pure (.for c (.unary ic i) a b s)
      | .gosub => do let c ← col; let e ← expectLineNumber; pure (.gosub c e)
      | .goto => do let c ← col; let e ← expectLineNumber; pure (.goto c e)
      | .if => ifStmt fuel
      | .input => inputStmt fuel
      | .let => letStmt fuel false
      | .list => do let c ← col; let (a, b) ← lineNumberRange; pure (.list c a b)
      | .load => do let c ← col; let e ← expression fuel; pure (.load c e)
      | .new => do pure (.new (← col))
      | .next => do
        let c ← col
        let ids ← identList fuel false []
        if ids.isEmpty then pure (.next c [.unary (0, 0) (.plain [])])
        else pure (.next c (ids.map fun (ic, i) => .unary ic i))
      | .on => do
        let c ← col
        let e ← expression fuel
        match ← next with
        | some (.word .goto) => do let ls ← lineNumberList fuel false []; pure (.onGoto c e ls)
        | some (.word .gosub) => do let ls ← lineNumberList fuel false []; pure (.onGosub c e ls)
        | _ => failHere Code.syntaxError "EXPECTED GOTO OR GOSUB"
      | .print => do let c ← col; let es ← printList fuel fuel true []; pure (.print c es)
      | .read => do let c ← col; let vs ← varList fuel fuel; pure (.read c vs)
      | .renum => renumStmt
      | .restore => do
        let n ← maybeLineNumber
        let c ← col
        match n with
        | some n => pure (.restore c (lineExpr c n))
        | none => pure (.restore c (.single c 0xbf800000))
      | .return => do pure (.return (← col))
      | .run => do
        let c ← col
        match ← peek with
        | some (.literal (.string s)) => do
          let _ ← next
          pure (.run c (.string (← col) s))
        | _ =>
          match ← maybeLineNumber with
          | some n => do pure (.run c (lineExpr (← col) n))
          | none => do
            let c2 ← col
            pure (.run c (.single (c2.1, c2.1) 0xbf800000))
      | .save => do let c ← col; let e ← expression fuel; pure (.save c e)
      | .stop => do pure (.stop (← col))
      | .swap => do
        let c ← col
        let vs ← varList fuel fuel
        match vs with
        | [a, b] => pure (.swap c b a)
        | _ => do
          let c2 ← col
          fail Code.syntaxError (c.1, c2.2) "EXPECTED TWO VARIABLES"
      | .troff => do pure (.troff (← col))
      | .tron => do pure (.tron (← col))
      | .wend => do pure (.wend (← col))
      | .while => do let c ← col; let e ← expression fuel; pure (.while c e)
      | .else | .rem1 | .rem2 | .step | .then | .to => failHere Code.syntaxError "EXPECTED STATEMENT"
    | _ => failHere Code.syntaxError "EXPECTED STATEMENT"

/-- `Statement::r#let` (also `MID$(...) = ...`) -/
def letStmt (fuel : Nat) (isShortcut : Bool) : PM Stmt := do
  let c ← col
  let isMid : Bool := match ← peek with
    | some (.ident (.string s)) => s == "MID$".toList
    | _ => false
  if isMid then
    let _ ← next
    expect .lparen
    let v ← expectVar fuel
    expect .comma
    let pos ← expression fuel
    let len ← (do
      if ← maybe .comma then expression fuel
      else let c2 ← col; pure (Expr.integer (c2.1, c2.1) 32767))
    expect .rparen
    expect (.operator .equal)
    let e ← expression fuel
    pure (.mid c v pos len e)
  else
    let v ← expectVar fuel
    match ← next with
    | some (.operator .equal) => do
      let e ← expression fuel
      pure (.let c v e)
    | _ =>
      if isShortcut then fail Code.syntaxError c "UNKNOWN STATEMENT"
      else failHere Code.syntaxError "EXPECTED EQUALS SIGN"

/-- `Statement::r#def` -/
def defStmt (fuel : Nat) : PM Stmt := do
  let c ← col
  match ← next with
  | some (.ident fnIdent) =>
    if !isUserFunction fnIdent then failHere Code.syntaxError "MUST START WITH FN"
    else
      let fc ← col
      expect .lparen
      let ids ← identList fuel false []
      expect .rparen
      expect (.operator .equal)
      -- HashMap insert: a later duplicate parameter overrides the earlier one
      let vm : VarMap := ids.foldl (fun m (ic, i) => (i, Variable.unary ic (mangle fnIdent i)) :: m) []
      let ps := ids.map fun (ic, i) => Variable.unary ic (mangle fnIdent i)
      let e ← descend fuel vm 0
      pure (.def c (.unary fc fnIdent) ps e)
  | _ => failHere Code.syntaxError EXPECTED_VARIABLE

/-- `Statement::r#if` -/
def ifStmt (fuel : Nat) : PM Stmt := do
  let c ← col
  let p ← expression fuel
  let th ← (do
    if ← maybe (.word .goto) then
      let gc ← col
      let e ← expectLineNumber
      pure [Stmt.goto gc e]
    else
      expect (.word .then)
      match ← maybeLineNumber with
      | some n => do pure [Stmt.goto c (lineExpr (← col) n)]
      | none => statements fuel false [])
  let el ← (do
    if ← maybe (.word .else) then
      match ← maybeLineNumber with
      | some n => do pure [Stmt.goto c (lineExpr (← col) n)]
      | none => statements fuel false []
    else pure [])
  pure (.if c p th el)

/-- `Statement::r#input` -/
def inputStmt (fuel : Nat) : PM Stmt := do
  let c ← col
  let caps ← (do
    match ← peek with
    | some .comma => do let _ ← next; pure (Expr.integer (← col) 0)
    | _ => do let c2 ← col; pure (Expr.integer (c2.1, c2.1) (-1)))
  let (prompt, pc) ← (do
    match ← peek with
    | some (.literal (.string s)) => do
      let _ ← next
      let pc ← col
      let t ← peek
      if isEnd t then pure (s, pc)
      else match t with
        | some .semicolon => do let _ ← next; pure (s, pc)
        | _ => failHere Code.syntaxError "UNEXPECTED TOKEN"
    | _ => pure ([], (c.2, c.2)))
  let vs ← varList fuel fuel
  pure (.input c caps (.string pc prompt) vs)

/-- `Statement::r#renum` -/
def renumStmt : PM Stmt := do
  let parseStart (dflt : Nat) : PM Expr := do
    if ← maybe .comma then do pure (lineExpr (← col) dflt)
    else
      let t ← peek
      if isEnd t then do let c ← col; pure (lineExpr (c.1, c.1) dflt)
      else
        let ln ← expectLineNumber
        let _ ← maybe .comma
        pure ln
  let c ← col
  let a ← parseStart 10
  let b ← parseStart 0
  let t ← peek
  let s ← (do
    if isEnd t then let c2 ← col; pure (lineExpr (c2.1, c2.1) 10)
    else expectLineNumber)
  pure (.renum c a b s)
end

/-- fuel that covers any token list: the recursion consumes a token at least every few calls -/
def fuelFor (ts : List Token) : Nat := 6 * ts.length + 20

/-- `BasicParser::parse` -/
def parseTokens (ts : List Token) : Except Error (List Stmt) :=
  let fuel := fuelFor ts
  let run : PM (List Stmt) := do
    match ← peek with
    | some (.literal (.integer _)) | some (.literal (.single _)) | some (.literal (.double _)) =>
      failHere Code.undefinedLine "INVALID LINE NUMBER"
    | _ => statements fuel false []
  (run.run { toks := ts }).map (·.1)

/-- `lang::parse` -/
def parse (lineNumber : Option Nat) (ts : List Token) : Except Error (List Stmt) :=
  match parseTokens ts with
  | .ok r => .ok r
  | .error e => .error (e.inLine lineNumber)

end Parse
end Basic
