import BasicModel.Model.Token
import BasicModel.Model.Fmt
/-
  `src/lang/lex.rs` (and the lexing helpers of `src/lang/token.rs`), function by function.

  The Rust lexer is an `Iterator` over a `VecDeque<char>` with a `pending` token queue and a
  `remark` flag.  `next()` first drains `pending`; `pending` is only ever filled by `alphabetic()`,
  which is only entered with `pending` empty, and nothing looks at the characters while `pending`
  is non-empty.  The model therefore lets `alphabetic` return its whole queue at once
  (`alphabetic : List Char → List Token × List Char`); `lexLoop` appends it to the output and
  derives the `remark` flag from the *first* token of that queue, exactly as `next()` does
  (a `REM` that is not the first token of its queue does not start remark mode).

  Everything is total: scanners recurse structurally on the remaining characters; the
  iterator loop and `scan_alphabetic` carry fuel = remaining length + 1.
-/
namespace Basic
namespace Lex

/-! ### character classes -/

/-- `is_basic_whitespace` -/
def isWs (c : Char) : Bool := c = ' ' || c = '\t'
/-- `is_basic_digit` = `char::is_ascii_digit` -/
def isDigit (c : Char) : Bool := c.isDigit
/-- `is_basic_alphabetic` = `char::is_ascii_alphabetic` -/
def isAlpha (c : Char) : Bool := c.isAlpha
/-- `char::to_ascii_uppercase` -/
def upper (c : Char) : Char := c.toUpper

/-- `char::is_whitespace` (Unicode `White_Space`), used by `str::trim_end` -/
def isUniWhite (c : Char) : Bool :=
  let n := c.toNat
  (9 ≤ n && n ≤ 13) || n = 32 || n = 0x85 || n = 0xA0 || n = 0x1680 || (0x2000 ≤ n && n ≤ 0x200A)
    || n = 0x2028 || n = 0x2029 || n = 0x202F || n = 0x205F || n = 0x3000

/-- `str::trim_end` -/
def trimEndStr (s : Str) : Str := (s.reverse.dropWhile isUniWhite).reverse

/-! ### `token.rs`: keyword table, `scan_alphabetic`, `match_minutia` -/

/-- the table of `Token::scan_alphabetic`, in source order (order decides `min_by_key` ties) -/
def keywords : List (Str × Token) := [
  ("RESTORE".toList, .word .restore),
  ("DEFDBL".toList, .word .defdbl),
  ("DEFINT".toList, .word .defint),
  ("DEFSNG".toList, .word .defsng),
  ("DEFSTR".toList, .word .defstr),
  ("DELETE".toList, .word .delete),
  ("RETURN".toList, .word .return),
  ("CLEAR".toList, .word .clear),
  ("ERASE".toList, .word .erase),
  ("GOSUB".toList, .word .gosub),
  ("INPUT".toList, .word .input),
  ("PRINT".toList, .word .print),
  ("RENUM".toList, .word .renum),
  ("TROFF".toList, .word .troff),
  ("WHILE".toList, .word .while),
  ("CONT".toList, .word .cont),
  ("DATA".toList, .word .data),
  ("ELSE".toList, .word .else),
  ("GOTO".toList, .word .goto),
  ("NEXT".toList, .word .next),
  ("LIST".toList, .word .list),
  ("LOAD".toList, .word .load),
  ("READ".toList, .word .read),
  ("SAVE".toList, .word .save),
  ("STEP".toList, .word .step),
  ("STOP".toList, .word .stop),
  ("SWAP".toList, .word .swap),
  ("THEN".toList, .word .then),
  ("TRON".toList, .word .tron),
  ("WEND".toList, .word .wend),
  ("AND".toList, .operator .and),
  ("CLS".toList, .word .cls),
  ("DEF".toList, .word .def),
  ("DIM".toList, .word .dim),
  ("END".toList, .word .end),
  ("EQV".toList, .operator .eqv),
  ("FOR".toList, .word .for),
  ("IMP".toList, .operator .imp),
  ("LET".toList, .word .let),
  ("MOD".toList, .operator .modulo),
  ("NEW".toList, .word .new),
  ("NOT".toList, .operator .not),
  ("REM".toList, .word .rem1),
  ("RUN".toList, .word .run),
  ("XOR".toList, .operator .xor),
  ("IF".toList, .word .if),
  ("ON".toList, .word .on),
  ("OR".toList, .operator .or),
  ("TO".toList, .word .to)]

/-- `pat` is a prefix of `s` -/
def isPrefix : Str → Str → Bool
  | [], _ => true
  | _ :: _, [] => false
  | p :: ps, c :: cs => p = c && isPrefix ps cs

/-- `str::find(pat)`: index of the first occurrence (all strings here are ASCII, so byte index =
    character index) -/
def findSub (pat : Str) : Str → Option Nat
  | [] => if pat.isEmpty then some 0 else none
  | c :: cs =>
    if isPrefix pat (c :: cs) then some 0
    else match findSub pat cs with
      | some i => some (i + 1)
      | none => none

/-- `.filter_map(find).min_by_key(idx)`: the FIRST table entry among those with the least index -/
def bestMatch (s : Str) : List (Str × Token) → Option (Nat × Nat × Token) → Option (Nat × Nat × Token)
  | [], best => best
  | (ts, tk) :: rest, best =>
    match findSub ts s with
    | none => bestMatch s rest best
    | some idx =>
      match best with
      | none => bestMatch s rest (some (idx, ts.length, tk))
      | some (bi, bl, bt) =>
        if idx < bi then bestMatch s rest (some (idx, ts.length, tk))
        else bestMatch s rest (some (bi, bl, bt))

/-- the `while let` loop of `Token::scan_alphabetic`; returns the queue and the remaining text -/
def scanAlphaLoop : Nat → List Token → Str → List Token × Str
  | 0, v, s => (v, s)
  | fuel + 1, v, s =>
    match bestMatch s keywords none with
    | none => (v, s)
    | some (idx, len, token) =>
      if idx = 0 then scanAlphaLoop fuel (v ++ [token]) (s.drop len)
      else scanAlphaLoop fuel (v ++ [.ident (.plain (s.take idx)), token]) (s.drop (idx + len))

/-- `Token::scan_alphabetic(v, s)` -/
def scanAlphabetic (v : List Token) (s : Str) : List Token × Str :=
  scanAlphaLoop (s.length + 1) v s

/-- `Token::match_minutia` -/
def matchMinutia : Str → Option Token
  | ['('] => some .lparen
  | [')'] => some .rparen
  | [','] => some .comma
  | [':'] => some .colon
  | [';'] => some .semicolon
  | ['?'] => some (.word .print)
  | ['\''] => some (.word .rem2)
  | ['^'] => some (.operator .caret)
  | ['*'] => some (.operator .multiply)
  | ['/'] => some (.operator .divide)
  | ['\\'] => some (.operator .divideInt)
  | ['+'] => some (.operator .plus)
  | ['-'] => some (.operator .minus)
  | ['='] => some (.operator .equal)
  | ['<'] => some (.operator .less)
  | ['>'] => some (.operator .greater)
  | _ => none

/-! ### the scanners of `BasicLexer` -/

/-- `whitespace()`: pops one character unconditionally, then the rest of the run -/
def whitespace : List Char → Token × List Char
  | [] => (.whitespace 1, [])
  | _ :: cs => (.whitespace (1 + (cs.takeWhile isWs).length), cs.dropWhile isWs)

/-- the tail of `number()` after the loop -/
def numberFinish (s : Str) (digits : Nat) (decimal exp : Bool) : Token :=
  if digits > 7 then .literal (.double s)
  else if !exp && !decimal && (Fmt.parseI16 s).isSome then .literal (.integer s)
  else .literal (.single s)

/-- the `while let Some(ch) = pop_front()` loop of `number()` -/
def numberLoop : List Char → Str → Nat → Bool → Bool → Token × List Char
  | [], s, digits, decimal, exp => (numberFinish s digits decimal exp, [])
  | ch0 :: rest, s, digits, decimal, exp =>
    let ch := if ch0 = 'e' then 'E' else if ch0 = 'd' then 'D' else ch0
    let s := s ++ [ch]
    let digits := if !exp && isDigit ch then digits + 1 else digits
    let decimal := decimal || ch = '.'
    let digits := if ch = 'D' then digits + 8 else digits
    if ch = '!' then (.literal (.single s), rest)
    else if ch = '#' then (.literal (.double s), rest)
    else if ch = '%' then (.literal (.integer s), rest)
    else
      match rest with
      | [] => (numberFinish s digits decimal exp, [])
      | pk :: _ =>
        if ch = 'E' || ch = 'D' then
          if pk = '+' || pk = '-' then numberLoop rest s digits decimal true
          else if !isDigit pk then
            -- un-read the exponent letter (upper-cased) and stop
            (numberFinish s.dropLast (if ch = 'D' then digits - 8 else digits) decimal false, ch :: rest)
          else numberLoop rest s digits decimal true
        else if isDigit pk then numberLoop rest s digits decimal exp
        else if !exp && !decimal && pk = '.' then numberLoop rest s digits decimal exp
        else if !exp && (pk = 'E' || pk = 'e' || pk = 'D' || pk = 'd') then
          numberLoop rest s digits decimal exp
        else if pk = '!' || pk = '#' || pk = '%' then numberLoop rest s digits decimal exp
        else (numberFinish s digits decimal exp, rest)

/-- `number()` -/
def number (cs : List Char) : Token × List Char := numberLoop cs [] 0 false false

/-- body of a string literal up to (and consuming) the closing quote or the end of line -/
def stringBody : List Char → Str × List Char
  | [] => ([], [])
  | c :: cs =>
    if c = '"' then ([], cs)
    else let r := stringBody cs; (c :: r.1, r.2)

/-- `string()`: the opening quote is popped unconditionally -/
def string (cs : List Char) : Token × List Char :=
  let r := stringBody cs.tail
  (.literal (.string r.1), r.2)

/-- the loop of `alphabetic()`; `pending` is the lexer's queue -/
def alphaLoop : List Char → Str → Bool → List Token → List Token × List Char
  | [], _, _, pending => (pending, [])
  | ch0 :: rest, s, digit, pending =>
    let ch := upper ch0
    let s := s ++ [ch]
    let digit := digit || isDigit ch
    if ch = '$' then (pending ++ [.ident (.string s)], rest)
    else if ch = '!' then (pending ++ [.ident (.single s)], rest)
    else if ch = '#' then (pending ++ [.ident (.double s)], rest)
    else if ch = '%' then (pending ++ [.ident (.integer s)], rest)
    else
      let finish : List Token × List Char :=
        let r := scanAlphabetic pending s
        if r.2.isEmpty then (r.1, rest) else (r.1 ++ [.ident (.plain r.2)], rest)
      match rest with
      | [] => finish
      | pk :: _ =>
        if isAlpha pk then
          if digit then (pending ++ [.ident (.plain s)], rest)
          else alphaLoop rest s digit pending
        else if isDigit pk || pk = '$' || pk = '!' || pk = '#' || pk = '%' then
          let r := scanAlphabetic pending s
          if r.2.isEmpty then (r.1, rest) else alphaLoop rest r.2 digit r.1
        else finish

/-- `alphabetic()`: the whole `pending` queue it produces, and the remaining characters -/
def alphabetic (cs : List Char) : List Token × List Char := alphaLoop cs [] false []

/-- the digit loop of `radix()`; a rejected character is pushed back upper-cased -/
def radixDigits (isHex : Bool) : List Char → Str × List Char
  | [] => ([], [])
  | ch0 :: rest =>
    let ch := upper ch0
    if ('0' ≤ ch && ch ≤ '7') || (isHex && (('8' ≤ ch && ch ≤ '9') || ('A' ≤ ch && ch ≤ 'F'))) then
      let r := radixDigits isHex rest
      (ch :: r.1, r.2)
    else ([], ch :: rest)

/-- `radix()`: the `&` is popped unconditionally -/
def radix (cs : List Char) : Token × List Char :=
  match cs.tail with
  | 'H' :: r => let d := radixDigits true r; (.literal (.hex d.1), d.2)
  | 'h' :: r => let d := radixDigits true r; (.literal (.hex d.1), d.2)
  | r => let d := radixDigits false r; (.literal (.octal d.1), d.2)

/-- the loop of `minutia()` -/
def minutiaLoop : List Char → Str → Token × List Char
  | [], s => (.unknown s, [])
  | ch :: rest, s =>
    let s := s ++ [ch]
    match matchMinutia s with
    | some t => (t, rest)
    | none =>
      match rest with
      | [] => (.unknown s, [])
      | pk :: _ =>
        if isAlpha pk || isDigit pk || isWs pk then (.unknown s, rest)
        else minutiaLoop rest s

/-- `minutia()` -/
def minutia (cs : List Char) : Token × List Char := minutiaLoop cs []

/-- `Iterator::next` iterated to exhaustion (`.collect()`); fuel = remaining length + 1 -/
def lexLoop : Nat → List Char → Bool → List Token
  | 0, _, _ => []
  | _ + 1, [], _ => []
  | fuel + 1, pk :: cs, remark =>
    if remark then [.unknown (pk :: cs)]
    else if isWs pk then
      let r := whitespace (pk :: cs); r.1 :: lexLoop fuel r.2 false
    else if isDigit pk || pk = '.' then
      let r := number (pk :: cs); r.1 :: lexLoop fuel r.2 false
    else if isAlpha pk then
      let r := alphabetic (pk :: cs)
      match r.1 with
      | [] => []   -- `alphabetic()` returned `None`: the iterator ends (does not happen)
      | t :: ts => t :: ts ++ lexLoop fuel r.2 (t == .word .rem1)
    else if pk = '"' then
      let r := string (pk :: cs); r.1 :: lexLoop fuel r.2 false
    else if pk = '&' then
      let r := radix (pk :: cs); r.1 :: lexLoop fuel r.2 false
    else
      let r := minutia (pk :: cs); r.1 :: lexLoop fuel r.2 (r.1 == .word .rem2)

/-- all tokens of the text after the line number, before the post-passes -/
def rawTokens (cs : List Char) : List Token := lexLoop (cs.length + 1) cs false

/-! ### the post-passes -/

/-- the loop of `trim_end`, on the reversed token list: blanks and runs that are nothing but
    (Unicode) white space are popped until something else ends the line (fix D18) -/
def trimEndRev : List Token → List Token
  | .whitespace _ :: r => trimEndRev r
  | .unknown s :: r => if (trimEndStr s).isEmpty then trimEndRev r else .unknown (trimEndStr s) :: r
  | r => r

/-- `trim_end` -/
def trimEnd (ts : List Token) : List Token := (trimEndRev ts.reverse).reverse

/-- what one window of `collapse_triples` pushes (the four `if let` blocks are mutually exclusive) -/
def tripleMatch : Token → Token → Token → Option Token
  | .operator .less, .whitespace _, .operator .greater => some (.operator .notEqual)
  | .operator .less, .whitespace _, .operator .equal => some (.operator .lessEqual)
  | .operator .equal, .whitespace _, .operator .greater => some (.operator .greaterEqual)
  | .operator .equal, .whitespace _, .operator .less => some (.operator .lessEqual)
  | .operator .greater, .whitespace _, .operator .less => some (.operator .notEqual)
  | .operator .greater, .whitespace _, .operator .equal => some (.operator .greaterEqual)
  | .ident (.plain go), .whitespace _, .word .to =>
    if go = "GO".toList then some (.word .goto) else none
  | .ident (.plain go), .whitespace _, .ident (.plain sub) =>
    if go = "GO".toList && sub = "SUB".toList then some (.word .gosub) else none
  | _, _, _ => none

/-- `locs` of `collapse_triples`: every window is inspected (overlaps included) -/
def tripleLocs : List Token → Nat → List (Nat × Token)
  | a :: b :: c :: rest, i =>
    match tripleMatch a b c with
    | some t => (i, t) :: tripleLocs (b :: c :: rest) (i + 1)
    | none => tripleLocs (b :: c :: rest) (i + 1)
  | _, _ => []

/-- `tokens.splice(index..index + n, Some(token))` -/
def splice (n : Nat) (ts : List Token) (loc : Nat × Token) : List Token :=
  ts.take loc.1 ++ loc.2 :: ts.drop (loc.1 + n)

/-- `while let Some(loc) = locs.pop() { splice }`: replacements from the last location to the first -/
def applyLocs (n : Nat) (locs : List (Nat × Token)) (ts : List Token) : List Token :=
  locs.foldr (fun loc ts => splice n ts loc) ts

/-- `collapse_triples` -/
def collapseTriples (ts : List Token) : List Token := applyLocs 3 (tripleLocs ts 0) ts

/-- what one window of `collapse_doubles` pushes (at most one of the `if let`s can fire) -/
def doubleMatch : Token → Token → Option Token
  | .operator .equal, .operator .greater => some (.operator .greaterEqual)
  | .operator .equal, .operator .less => some (.operator .lessEqual)
  | .operator .greater, .operator .equal => some (.operator .greaterEqual)
  | .operator .less, .operator .equal => some (.operator .lessEqual)
  | .operator .less, .operator .greater => some (.operator .notEqual)
  | _, _ => none

/-- `locs` of `collapse_doubles`: after a hit the next window is skipped (`tokens_iter.next()`) -/
def doubleLocs : List Token → Nat → List (Nat × Token)
  | a :: b :: rest, i =>
    match doubleMatch a b with
    | some t => (i, t) :: doubleLocs rest (i + 2)
    | none => doubleLocs (b :: rest) (i + 1)
  | _, _ => []

/-- `collapse_doubles` -/
def collapseDoubles (ts : List Token) : List Token := applyLocs 2 (doubleLocs ts 0) ts

/-- `locs` of `separate_words` -/
def wordLocs : List Token → Nat → List Nat
  | a :: b :: rest, i =>
    if a.isWord && b.isWord then i :: wordLocs (b :: rest) (i + 1) else wordLocs (b :: rest) (i + 1)
  | _, _ => []

/-- `tokens.insert(index + 1, Token::Whitespace(1))` -/
def insertBlank (ts : List Token) (i : Nat) : List Token :=
  ts.take (i + 1) ++ .whitespace 1 :: ts.drop (i + 1)

/-- `separate_words`: insertions from the last location to the first -/
def separateWords (ts : List Token) : List Token :=
  (wordLocs ts 0).foldr (fun i ts => insertBlank ts i) ts

/-- the four passes in the order of `BasicLexer::lex` -/
def postPasses (ts : List Token) : List Token :=
  separateWords (collapseDoubles (collapseTriples (trimEnd ts)))

/-! ### `BasicLexer::lex` -/

/-- the line-number prefix scan: number of characters in `[ \t]*[0-9]*` -/
def prefixLen : List Char → Bool → Nat
  | [], _ => 0
  | ch :: cs, seenDigit =>
    if seenDigit && isWs ch then 0
    else if isDigit ch then 1 + prefixLen cs true
    else if !isWs ch then 0
    else 1 + prefixLen cs seenDigit

/-- `LineNumber::max_value()` -/
def maxLineNumber : Nat := 65529

/-- line number and the text that is handed to the token iterator -/
def splitLineNumber (src : List Char) : Option Nat × List Char :=
  let pos := prefixLen src false
  -- `trim_start()`: the prefix holds blanks, tabs and digits only
  match Fmt.parseU16 ((src.take pos).dropWhile isWs) with
  | some num =>
    if num ≤ maxLineNumber then
      match src.drop pos with
      | ' ' :: r => (some num, r)
      | r => (some num, r)
    else (none, src)
  | none => (none, src)

/-- `BasicLexer::lex` / `lang::lex` -/
def lex (src : Str) : Option Nat × List Token :=
  let r := splitLineNumber src
  (r.1, postPasses (rawTokens r.2))

/-- `Line::new` -/
def lineNew (s : Str) : Line := ⟨(lex s).1, (lex s).2⟩

/-- `Line::new(s).to_string()` -/
def relist (s : Str) : Str := printLine (lex s).1 (lex s).2

end Lex
end Basic
