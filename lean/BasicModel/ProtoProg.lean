import BasicModel.ProtoAst
import BasicModel.Model.Program
/-
  Canonical text of opcodes and compiled programs (shared with harness/src/progproto.rs).
-/
namespace Basic
namespace Proto

def showOp : Opcode → String
  | .literal v => "Literal:" ++ showVal v
  | .push n => "Push:" ++ hexOfStr n | .pop n => "Pop:" ++ hexOfStr n
  | .pushArr n => "PushArr:" ++ hexOfStr n | .popArr n => "PopArr:" ++ hexOfStr n
  | .dimArr n => "DimArr:" ++ hexOfStr n | .eraseArr n => "EraseArr:" ++ hexOfStr n
  | .ifNot a => s!"IfNot:{a}" | .jump a => s!"Jump:{a}" | .next n => "Next:" ++ hexOfStr n
  | .on => "On" | .return => "Return" | .clear => "Clear" | .cls => "Cls" | .cont => "Cont"
  | .def n => "Def:" ++ hexOfStr n | .defdbl => "Defdbl" | .defint => "Defint" | .defsng => "Defsng"
  | .defstr => "Defstr" | .delete => "Delete" | .end => "End" | .fn n => "Fn:" ++ hexOfStr n
  | .input n => "Input:" ++ hexOfStr n | .letMid => "LetMid" | .list => "List" | .load => "Load"
  | .loadRun => "LoadRun" | .new => "New" | .print => "Print" | .read => "Read" | .renum => "Renum"
  | .restore a => s!"Restore:{a}" | .save => "Save" | .stop => "Stop" | .swap => "Swap"
  | .troff => "Troff" | .tron => "Tron"
  | .neg => "Neg" | .pow => "Pow" | .mul => "Mul" | .div => "Div" | .divInt => "DivInt" | .mod => "Mod"
  | .add => "Add" | .sub => "Sub" | .eq => "Eq" | .notEq => "NotEq" | .lt => "Lt" | .ltEq => "LtEq"
  | .gt => "Gt" | .gtEq => "GtEq" | .not => "Not" | .and => "And" | .or => "Or" | .xor => "Xor"
  | .imp => "Imp" | .eqv => "Eqv"
  | .abs => "Abs" | .asc => "Asc" | .atn => "Atn" | .cdbl => "Cdbl" | .chr => "Chr" | .cint => "Cint"
  | .cos => "Cos" | .csng => "Csng" | .date => "Date" | .exp => "Exp" | .fix => "Fix" | .hex => "Hex"
  | .inkey => "Inkey" | .instr => "Instr" | .int => "Int" | .left => "Left" | .len => "Len"
  | .log => "Log" | .mid => "Mid" | .oct => "Oct" | .pos => "Pos" | .right => "Right" | .rnd => "Rnd"
  | .sgn => "Sgn" | .sin => "Sin" | .spc => "Spc" | .sqr => "Sqr" | .str => "Str" | .string => "String"
  | .tab => "Tab" | .tan => "Tan" | .time => "Time" | .val => "Val"

/-- insertion sort of strings (canonical order for unordered collections) -/
def sortStrings (l : List String) : List String :=
  l.foldl (fun acc s =>
    let (a, b) := acc.span (fun t => t < s || t == s)
    a ++ s :: b) []

def showErrs (es : List Error) : String := ",".intercalate (sortStrings (es.map showErr))

def showProgram (p : Program) : String :=
  let ops := ";".intercalate (p.link.ops.toList.map showOp)
  let data := ",".intercalate (p.link.data.toList.map showVal)
  let syms := ",".intercalate (p.link.symbols.map fun (k, (o, d)) => s!"{k}:{o}/{d}")
  s!"ops=[{ops}] data=[{data}] syms=\{{syms}} datapos={p.link.dataPos} direct={p.directAddress} ierr=[{showErrs p.indirectErrors}] derr=[{showErrs p.errors}]"

end Proto
end Basic
