-- This module serves as the root of the `BasicModel` library.
-- Import modules here that should be built as part of the library.
import BasicModel.Basic
