import BasicModel.Model.Err
import BasicModel.Model.Ieee
import BasicModel.Model.Val
import BasicModel.Model.Std
import BasicModel.Model.Ops
import BasicModel.Model.Fmt
import BasicModel.Model.Func
import BasicModel.Proto
