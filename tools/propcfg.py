"""Per-property configuration of ./check (layers, trusted base, assumptions)."""
import re

TB_COMMON = [
    "Lean 4.33.0 kernel (leanchecker re-check in thorough); axioms limited to propext, Classical.choice, Quot.sound (audited with #print axioms on every theorem)",
    "the hand-written Lean model /verif/lean/BasicModel/Model/*.lean and the tables regenerated from /repo/src on every run (tools/gen_tables.py -> BasicModel/Gen/*.lean), tied to /repo by the differential correspondence run by this check (Rust harness /verif/harness, rebuilt from /repo's working tree with the cfg-guarded read-only hooks)",
    "Lean compiler/runtime for the executable driver (can hide a disagreement, cannot make a false theorem check)",
    "canonicalisation in harness/src/*proto.rs and BasicModel/Proto*.lean (hex strings, float bit patterns, NaN collapsed, HashMap-ordered diagnostics sorted)",
]

ASSUME_FLOAT = "IEEE-754 arithmetic and libm are opaque in theorems; executable via Lean Float/Float32 (same hardware/glibc as Rust)"
ASSUME_STD = "Rust std semantics as documented (checked_* integer ops, saturating `as` casts, str::parse, char_indices, BTreeMap/HashMap as finite maps) - Model/Std.lean"
ASSUME_ENV = "environment inputs are explicit: CLEAR's entropy, DATE$/TIME$, the terminal; generated programs do not use unseeded RND, DATE$, TIME$, LOAD/SAVE"
ASSUME_FRAG = "program-level runs use the generated well-defined fragment (harness/src/progs.rs) with 'nice' numbers; native stack overflow, allocation failure and wall-clock behaviour are outside the model"

TECH = "Lean 4 theorems over a hand-written executable model + differential correspondence model vs implementation (state lockstep) + property oracle evaluated on the real interpreter"

NOT_YET = {}


def _p(level_text, level_note, layers, rule, partial="", technique=TECH, extra_tb=None, assumptions=None, k_is_violation=None):
    d = {
        "level_text": level_text,
        "level_note": level_note,
        "technique": technique,
        "layers": layers,
        "trusted_base": TB_COMMON + (extra_tb or []),
        "assumptions": assumptions or [ASSUME_STD, ASSUME_FLOAT, ASSUME_ENV, ASSUME_FRAG],
        "partial": partial,
        "rule": rule,
    }
    if k_is_violation:
        d["k_is_violation"] = k_is_violation
    return d


RULE_PROG = "K layers: generated programs / sessions (sizes, statement mix from harness/src/progs.rs, seed-derived), every answer compared as text incl. full VM state dumps; F layers: one oracle evaluation per generated case on the real interpreter. distinct_nontrivial = distinct request lines"

PROPS = {
    "C01": _p(
        "Theorems structured_correct / block_rules / for_integer / structured_linked / one_line_program_correct (Spec/Struct, Lemmas/Struct*): a compositional calculus `Implements code f` (code as a function of its start address implements a transformer of the variable store, stack and every other component unchanged, errors exact) with rules for LET, ':', IF-THEN(-ELSE), WHILE-WEND (any iteration bound) and FOR-NEXT (start assigned first, limit then step evaluated once, body at least once, NEXT adds the step and compares by the step's sign, Integer overflow = OVERFLOW); a structured program of these constructors is implemented by its code for every fuel-bounded run of the specification semantics exec; the generator's fragments and the LINKER produce exactly that code when the statement is a whole line (nested IFs re-based inside loop bodies), so a one-line program runs as exec says. Not covered: loops spread over several numbered lines (run rules apply wherever the code shape is established), GOTO in/out of blocks, arrays, NEXT with a list. Theorem compileExpr_correct: for every pure expression tree (literals, scalars, all unary/binary operators, 22 one-argument built-ins) the generated code is its postfix form and, from ANY machine state, running it pushes exactly the value the documented evaluation gives, or stops at the first failing operation with the variables untouched. Floor theorems on the model: WHILE/WEND pairing is bracket matching, every resolved reference is patched to the address of its LINE's symbol, ON selects 1-based / falls through / rejects negatives, IfNot branches on zero, NEXT compares by the sign of the step. The whole-program simulation is not proved; it is covered by (K) op-for-op equality of the compiled program and lockstep of the VM state with the real interpreter, and by (F) a statement-by-statement reference interpreter over structured programs (FOR/WHILE/IF/GOSUB/ON/early exits) whose predicted transcript must equal the real one.",
        "Partial: per-mechanism lemmas proved, program_sim is exploration (correspondence + reference interpreter). Trusted: Lean kernel, the model's tie to /repo (differential), the reference interpreter in harness/src/find2.rs.",
        ["compile", "ses", "find-c01"], RULE_PROG, partial="whole-program simulation theorem not proved (DESIGN section 8 C01 target)"),
    "C02": _p(
        "Theorems: the generated precedence tables (re-extracted from parse.rs on every run) equal the manual's 13-level table; result type per operator and operand types; relational results are 0 or -1; logical operators are the 16-bit bitwise ones; string/number mixes are TYPE MISMATCH; parse-of-render results as far as proved (see evidence). K: parser model vs real parser on rendered trees, token soup and mutated lines (ASTs with columns identical), operator x type x boundary matrix. F: random expression trees rendered with the parentheses the MANUAL's table requires (or more) must parse back to the same tree on the real parser.",
        "Partial where the evidence lists _partial theorems (parse_render). Trusted: Lean kernel, generated tables translator, correspondence.",
        ["parse", "ops-matrix", "ops-conv", "find-c02"], RULE_PROG, partial="parse_render proved for the fragment stated in Thm/C02.lean",
        # the model's operator arms are the documented promotion/result-type table (Thm/C02.lean); a differing
        # operator result on concrete operands is therefore itself the failing input
        k_is_violation=lambda req: bool(re.match(r"OP (add|sub|mul|div|divint|mod|eq|ne|lt|le|gt|ge|and|or|xor|imp|eqv|neg|not) ", req))),
    "C03": _p(
        "Theorems: a bounded slice executes at most n instructions; after interrupt the state is Stopped within 2 execute calls; at the prompt execute is a fixed point; stack push/pop never fault and are bounded; over-long lines are rejected; the model's lexer and parser are total (lexer without fuel, parser fuel = 6*tokens+20, exhaustion would be reported as a fault by the correspondence). K: every layer runs each implementation call under catch_unwind ('fault' never matches the model). F: fuzzed sessions (token soup, mutated lines, damaged programs, snapshots held across edits, interrupts at random points, deep nesting) must stay panic-free, return from every slice and be at the prompt within 4 calls of an interrupt.",
        "Partial by nature: native stack overflow, allocation failure and wall-clock hangs of the Rust runtime are not exhibited by the model; they are only explored (fuzzing with bounded nesting). Panic sites are modelled by convention (faults in Var.lean/Listing.lean) and tied by the correspondence.",
        ["parse", "hist", "find-c03"], RULE_PROG, partial="aborts/stack overflow/hangs: exploration only"),
    "C04": _p(
        "Theorems inv_reachable / run_eq_fresh / edit_then_resume_refused: the invariant 'the compiled image is the compilation of the listing, or dirty is set' holds after EVERY history of API calls; a direct line entered in any reachable state compiles to the program a fresh interpreter given the listing would compile, and RUN's state after CLEAR is field-for-field that of the fresh interpreter; after an edit CONT, RETURN, NEXT and FN are refused. Theorems: entering a numbered line cancels the CONT point, the value stack and the function table and marks the program dirty (a bare number for an absent line changes nothing); a direct line on a dirty program recompiles from the current listing before running; recompilation after clear equals compilation from scratch up to the data cursor (which RUN's CLEAR resets); only DELETE/RENUM/NEW change the listing. K: edit histories with state lockstep. F: history-vs-fresh relation on the real interpreter (RUN, RUN n, CONT, RETURN, NEXT, FN after edits).",
        "Trusted: Lean kernel, model tie (differential). run_then_same_session: equal states give equal further sessions (determinism), so RUN after any history behaves as in a fresh interpreter; the relation is additionally evaluated on the implementation.",
        ["hist", "find-c04"], RULE_PROG),
    "C05": _p(
        "Open known finding K5 (three comparison characters in a row in a tail the parser ignores: listing not a fixed point; proved on the model as adjacent_comparisons_not_faithful, witnesses in corpus/C05). trimEnd_idem: the end-of-line trimming is idempotent (D18). Theorems on the lexer model: every keyword scans to itself, one-character tokens and their texts are mutually inverse, per-token re-lexing for the token classes proved in Thm/C05.lean, idempotence of relisting on canonical token lists as far as proved. K: lexer model vs real lexer exhaustively over all short strings of the significant alphabet and on random/mutated lines. F: the property's own oracle (same number, same parse, fixed point) on the real Line::new over the exhaustive set and random lines.",
        "Partial: the for-all-strings claim is proved for canonical lines only; arbitrary strings are explored exhaustively up to the length bound stated in the evidence.",
        ["lex-exh", "lex-rand", "lex-c05", "lst-rand", "find-c05"], "find-c05: lines typed at the prompt of the real runtime (length limit with 1..4-byte characters, lines that grow when listed, generated programs, soup), saved as listed and fed to load_str: every saved line is accepted and the loaded program lists identically; lst-rand: load_str model vs real incl. the limit on typed and listed text; lexer layers: exhaustive strings over the 34-symbol alphabet after three prefixes, random and mutated lines; distinct_nontrivial = distinct request lines", partial="arbitrary strings: bounded exhaustive exploration"),
    "C06": _p(
        "Theorems over arbitrary operation sequences of the variable store: absent keys read as the default of their type, successful stores keep the Typed invariant, storing a default frees the slot, array keys are injective and differ from scalar names (no aliasing), bounds, re-dimension rejected, pool bound. K: scripts over a collision-prone name universe with sorted dumps. F: abstract typed store (Spec/VarSpec.lean) vs the real Var.",
        "Trusted: Lean kernel, association-list model of HashMap, correspondence.",
        ["var-scripts"], "var-scripts: scripts of <= 40 operations over the name universe of DESIGN section 8 C06; distinct_nontrivial = distinct scripts"),
    "C09": _p(
        "Theorems: readData advances / OUT OF DATA at the end / restore, reading all items from 0 returns the data segment in order, append concatenates data segments, a line symbol records the number of constants compiled before it, RESTORE n is patched to that address, a DATA item is exactly one (possibly negated) literal, CLEAR rewinds. K: compiled data segment and symbols equal to the real ones; sessions. F: programs with DATA lines placed before/between/after code, RESTORE and RESTORE n, predicted output.",
        "Partial: 'data segment = constants in source order' is proved for append order; that codegen visits statements in source order is tied by the correspondence.",
        ["compile", "find-c09"], RULE_PROG),
    "C10": _p(
        "Theorems: DEF records (arity, entry) and is ILLEGAL DIRECT in direct mode; a call with k arguments pushes the return address and the arguments in reverse so that the body's Pop ops bind parameter i to argument i; wrong arity / unknown function errors; mangled parameter names contain '.', so they are disjoint from program variables; shape of the code emitted for DEF. K: sessions. F: FN call vs inlined body with temporaries, globals untouched, nesting, errors, runaway recursion = OUT OF MEMORY.",
        "Partial: the composition 'call = value of the body' is per-mechanism, not end-to-end. Known deviation K1 (parameter type taken from the mangled name's first letter F) is outside the generated fragment unless DEFtype F is used.",
        ["ses", "find-c10"], RULE_PROG),
    "C11": _p(
        "Theorems print_statement_run / print_statement_compiled / print_carry_over / item_sees_cursor: the code generated for a PRINT list (strings, numbers, ';', ',', TAB, SPC, POS with pure arguments) run on the real step function from ANY machine state emits exactly the text of the hand-written specification printSpec (items evaluated at the column reached at their point of the list, ',' = 1..14 blanks to the next multiple of 14, final newline unless the list ends in ';' or ','), leaves printCol = columnAfter of that text, stack and variables unchanged; errors stop with the text so far; two statements in sequence emit the concatenation with the column carried over. Theorems: number wrapper (leading blank or minus, PRINT appends one blank), the comma zone stated against the GENERATED TAB argument: 1..14 blanks ending on a multiple of 14, TAB never moves left, SPC/POS, the tracked column equals the column function of the emitted text (columnAfter, compositional). K: number formatting on 47k values incl. random bit patterns, TAB/POS grid, print-heavy sessions. F: print lists with predicted layout (strings, integers, TAB, SPC, POS, separators) carried across statements.",
        "Trusted: Rust's shortest round-trip float formatting (core::fmt contract); the model's exact-arithmetic re-implementation is validated against it by the correspondence.",
        ["ops-fmt", "ses", "find-c11"], RULE_PROG),
    "C12": _p(
        "Theorem run_identical_to_fresh_run: in any state satisfying the all-histories invariant (C04 inv_reachable) the execution of a direct RUN line is, call for call, state and event identical to that of a fresh interpreter given the listing (tron off, line compiles). Theorems: CLEAR sets stack, variables, dimensions, type defaults, functions, CONT state and the data cursor to their start-up values whatever the previous state; NEW additionally empties the listing, marks it dirty and turns tracing off; RUN compiles to exactly [Clear, Jump]. K: sessions with lockstep. F: arbitrary session prefixes followed by RUN / NEW+probe program / CLEAR compared with a fresh interpreter (transcripts and variable dumps).",
        "Trusted: Lean kernel, model tie. TRON is deliberately carried across RUN (it is how tracing is used).",
        ["hist", "find-c12"], RULE_PROG),
    "C13": _p(
        "Theorems interrupt_break_cont_transparent / stop_cont_transparent / end_cont_transparent: at the session API, interrupt (or STOP, or END in mid-program), the report calls with ANY quanta, any number of prompt calls, then the typed line CONT, lead back to exactly the interrupted state (pc, stack, variables, functions, rand, listing; print column 0 after the forced line break) with exactly the documented events; inspect_between_harmless: harmless balanced direct statements in between keep the continuation, variables they do not assign, and the stack; resumed_run_coincides_partial: the resumed run coincides with the uninterrupted one (partial: excludes a CONT statement inside the program, TAB/POS after a mid-line break - both exceptions the property names - tron and the recompile path). Theorems: executeLoop (m+n) = executeLoop m then n (quantum independence), interrupt saves state/pc, the BREAK report touches only state and the print column, CONT restores them; END/STOP record the continuation point. K: sessions run with quanta 1,2,3,7,5000 in lockstep. F: every interruption point k of generated programs (exhaustive in k for short programs) + CONT vs the uninterrupted run; transcripts for six quanta identical.",
        "The only permitted differences are the BREAK text and the column reset it forces (programs printing POS are exempt from the interrupt oracle).",
        ["ses", "find-c13"], RULE_PROG),
    "C14": _p(
        "Theorems on the model of Line::renum / Listing::renum: an unparsable line is returned untouched, a line without operands in the change map keeps its tokens, the line's own number is mapped, the visitor collects exactly the written line-number operands (GOTO, GOSUB, THEN/ELSE, ON lists, RESTORE, RUN, LIST, DELETE; sentinels and open range bounds skipped) and the result is the re-lexing of the listed text with those operands replaced by character position; numbering plan facts (kept below old-start, new, new+step ... strictly increasing, <= 65529, step 0 and overflow rejected, errors change nothing) are proved under C15. K: lex-renum (real Line::renum vs model on every referencing form x random change maps), lst-renum, sessions containing RENUM with state lockstep. F: on the real interpreter every RENUM either fails leaving the listing unchanged or satisfies the numbering law, rewrites every written operand and nothing else (ASTs compared up to columns) and preserves behaviour up to line numbers.",
        "Partial: 'behaves identically' is decided by the oracle on the implementation (and by C20's relocation lemmas), not by a composed theorem.",
        ["lex-renum", "lst-renum", "hist", "find-c14"], RULE_PROG, partial="renum_behaviour theorem not composed"),
    "C15": _p(
        "Theorems: the sorted association list refines the map LineNumber -> Line: insert/replace, delete (absent = no-op), range delete removes exactly the keys in the inclusive range, iterating listLine emits exactly the lines in range in ascending order and terminates, numbering facts of the RENUM plan, error returns leave the listing unchanged. K: exhaustive edit/list/delete histories over {0,5,10,65529} up to the length bound plus random long histories on the Listing type; parser model vs real parser on LIST/DELETE operand forms (parse) and whole edit sessions (hist). Fix D17 is mirrored in the parser model (bare DELETE refused at parse time). F: abstract map vs the real Listing; and (find-c15) typed sessions through the whole interpreter next to a reference BTreeMap: every form n, n-, -n, a-b, bare, inverted, above 65529 of LIST and DELETE with every endpoint of {0,1,5,10,11,65528,65529,65530,99999} over six subsets of a five-number universe, plus random histories over the whole range.",
        "Trusted: Lean kernel, sorted-list model of BTreeMap, correspondence.",
        ["lst-exh", "lst-rand", "parse", "hist", "find-c15"], "lst layers: exhaustive histories over a 4-number universe, random histories over 0..65529; find-c15: see level; distinct_nontrivial = distinct histories"),
    "C16": _p(
        "Theorems on the lexer model: alias facts (? = PRINT, ' = REM marker, =< / => / spaced relational operators, GO TO / GO SUB), case-insensitivity lemmas per scanner, keyword table facts. K: lexer model vs real lexer. F: random spellings of every realistic line and of generated program lines (case, ?, ', GO TO, =<, spaced relationals, optional LET, optional blanks): list identically (up to LET and remark marker) and run identically.",
        "Partial: the inductive whole-line theorem is not proved; whole lines are explored by the spelling oracle.",
        ["lex-rand", "find-c16"], RULE_PROG, partial="whole-line spelling theorem: exploration"),
    "C17": _p(
        "Theorems: the reply splitter's fields re-join to the reply and split exactly at commas outside quotes, a single variable takes the whole reply, a wrong count gives REDO with the stack unchanged, field conversion for string/numeric targets, the prompt event (prompt + '? ', caps flag), the redo unwinding to the reply's return address. K: sessions with INPUT. F: INPUT statements x replies with the documented split/conversion rules predicted by the generator; caps flag and prompt.",
        "Open known deviations (not raised by the generated cases): INF/NAN spellings accepted as numbers (K3); a user function raising inside an array subscript during INPUT (K2).",
        ["ses", "find-c17"], RULE_PROG),
    "C18": _p(
        "Theorems expr_pushes_one / let_stack_neutral: a pure expression's code leaves exactly one value more on the stack whatever the machine state, and a completed LET leaves the stack exactly as it found it. Theorems: every pool push (runtime stack, code, data) succeeds only up to 65535 elements and otherwise fails with OUT OF MEMORY; ON pops exactly its two operands; RETURN restores the stack below the return address; the repaired ON...GOSUB fall-through pops its own return address; a continuing NEXT re-pushes exactly its frame. K: sessions with state dumps. F: 25 statement kinds x 20 000 iterations (70 000 thorough) end with an empty stack and no OUT OF MEMORY; runaway GOSUB/FN/FOR/array fill end in OUT OF MEMORY with a usable session.",
        "Partial: stack-neutrality of arbitrary compiled statements is explored (loops), not proved.",
        ["ses", "find-c18"], RULE_PROG, partial="stmt_stack_neutral for all statements: exploration"),
    "C19": _p(
        "Theorems: the parser's column range of a token is its character offset and width in the listed text (remark tail excluded); the listing column of a diagnostic is the stored column shifted by the width of the line number prefix; UNDEFINED LINE carries the column stored with the pending reference; a jump into a program with compile errors returns the diagnostics and executes nothing. K: parser errors (code, column, message) and compiled diagnostics identical to the real ones. F: damaged programs (dangling references in every form, unmatched WHILE/WEND, multi-byte text before the fault): every diagnostic slices the listed line to the missing number / the keyword, nothing runs, direct statements still work.",
        "Trusted: Lean kernel, model tie.",
        ["parse", "compile", "find-c19"], RULE_PROG),
    "C20": _p(
        "Theorems layout_invariance / layout_invariance_fields / layout_invariance_step / _slice (Thm/C20Layout.lean): inserting a code-less line (REM, ' or blank: rem_line_codeless) before any other line of a listing leaves ops, data, diagnostics and directAddress of the compiled program identical and adds exactly one symbol pointing at the next line's code, and the VM takes the same steps (trace output and error line numbers included); appended after the LAST line it either changes nothing but the entry or adds one unreachable End (stated exactly, three cases); empty statements produce no code; branch_targets_inside_program: every symbol address the linker patches from lies strictly below directAddress, i.e. no branch can fall into the direct statement's code (fix D20). Theorems: append concatenates code and data and re-bases exactly the appended fragment's symbols and references; local labels of different fragments stay disjoint; a reference is patched to the address recorded for its LINE NUMBER (sorted symbol table), independent of position. K: compiled programs equal op for op. F: metamorphic layout relation on the real interpreter (REM lines inserted, empty statements, unreachable lines: identical transcript), direct statement list = one-line program, independent of the program in memory.",
        "Partial: layout_invariance as a theorem is a target; the relation is evaluated on the implementation.",
        ["compile", "find-c20"], RULE_PROG, partial="layout invariance for lines that DO generate unreachable code is explored, not proved; the append-at-end theorems assume an error-free listing"),
    "C08": {
        "level_text": "Lean theorems over all 2^16 (unary) / 2^32 (binary) Integer operands: +,-,*,\\,MOD,^,unary minus,ABS return the exact result over Int or OVERFLOW / DIVISION BY ZERO, never a fault; float->Integer is exactly floor-or-OVERFLOW on the decoded bit pattern. The model is tied to /repo by exhaustive (unary) and boundary+random (binary) differential runs, and Spec.intBin is evaluated against the implementation as finder.",
        "level_note": "Trusted: Lean kernel; axioms propext/Classical.choice/Quot.sound only; Model/Std.lean's reading of Rust's checked_* ops; the correspondence harness. Float arithmetic itself is not involved (integer decoding of bit patterns).",
        "technique": "Lean 4 proof (omega/bmod lemmas over Int16.toInt) + exhaustive/boundary differential correspondence + Int-spec finder",
        "layers": ["ops-int", "ops-conv"],
        "trusted_base": TB_COMMON + [
            "Model/Std.lean: documented meaning of i16::checked_add/sub/mul/neg/abs/div/rem/pow",
            "Model/Ieee.lean: integer decoding of IEEE-754 bit patterns (floor is exact integer arithmetic, not Float)",
        ],
        "assumptions": [ASSUME_STD, "float -> Integer conversion is specified on the decoded bit pattern (exact dyadic value)"],
        "rule": "ops-int: every unary Integer op on all 65 536 values, every binary op on 39x39 boundary pairs plus random pairs (K = model vs impl; F = Spec.intBin/intUn over Int vs impl); ops-conv: conversions at every boundary +-4 ulp in f32 and f64 plus random bit patterns. distinct_nontrivial = distinct request lines whose answer is not TYPE MISMATCH",
        "nontrivial": lambda req, ans: not ans.startswith("err 13@"),
        "k_is_violation": lambda req: bool(re.match(r"OP (add|sub|mul|divint|mod|neg|abs|pow) I-?\d+( I-?\d+)?$", req)) or bool(re.match(r"OP (toi16|cint) [SD]", req)),
    },
    "C07": {
        "level_text": "Lean theorems for all strings (List Char) and all Integer arguments: LEFT$/RIGHT$/MID$ equal take/drop of the documented positions or OVERFLOW, the substring search equals the least-offset search, LEN/ASC/SPC/STRING$/concatenation/comparison as documented, failures are BASIC error codes (no fault). Character-level behaviour of the UTF-8 byte-slicing Rust code is tied to the model by a full grid of 1-4 byte characters x positions {-32768..32767 boundary set} and the Spec functions are evaluated against the implementation (finder). find-c07: the assignment form MID$(v$,n[,m])=x$ against its character-level specification (size never changes, n=0 refused) over 1..4-byte characters; ses: sessions with such statements in lockstep.",
        "level_note": "Partial: theorems are stated for Integer-typed position/length arguments (float arguments go through the proved floor conversion of C08); STR$/VAL/HEX$/OCT$ and the 255-character store limit are covered by correspondence only (store limit is proved under C06). Trusted: Lean kernel, Model/Std.lean reading of char_indices/str::find/str ordering, harness.",
        "technique": "Lean 4 proof over List Char + differential correspondence on a multi-byte grid + list-spec finder",
        "layers": ["ops-str", "ses", "find-c07"],
        "trusted_base": TB_COMMON + ["Rust str::find / char_indices / Ord for str as documented (first match, char boundaries, byte-lexicographic = code-point order)"],
        "assumptions": [ASSUME_STD, "strings in the model are lists of Unicode scalar values; the Rust code's byte offsets all come from char_indices (checked by the multi-byte grid)"],
        "partial": "float-typed arguments, STR$/VAL/HEX$/OCT$: correspondence only",
        "rule": "ops-str: 23 strings (ASCII, 2/3/4-byte, mixed, empty, 254-256 long) x 17 positions x 17 lengths for LEFT$/RIGHT$/MID$/STRING$, all pairs of 17 short strings x 12 starts for INSTR, concatenation/comparison of all pairs, CHR$/ASC around the scalar-value gaps, 48 numeric spellings for VAL, plus random strings; distinct_nontrivial = distinct request lines",
        "k_is_violation": lambda req: bool(re.match(r"OP (left|right|mid|instr|len|asc|chr|string|spc|add|lt|le|gt|ge|eq|ne) ", req)),
    },
}


def replay_session(pid, r, path, log):
    log("session replay not available for this property")
    return 2
