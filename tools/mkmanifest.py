#!/usr/bin/env python3
"""Regenerate MANIFEST.json from tools/props.py (claimed properties) and properties.jsonl."""
import json, os, sys
ROOT = os.path.dirname(os.path.dirname(os.path.abspath(__file__)))
sys.path.insert(0, os.path.join(ROOT, "tools"))
import props
ids = [json.loads(l)["id"] for l in open(os.path.join(ROOT, "properties.jsonl"))]
hooks_commits = []
hc = os.path.join(ROOT, "tools", "hook_commits.txt")
if os.path.exists(hc):
    hooks_commits = [l.strip() for l in open(hc) if l.strip()]
checks = []
def has_thm(pid):
    return os.path.exists(os.path.join(ROOT, "lean", "BasicModel", "Thm", pid + ".lean"))


for pid in ids:
    if pid not in props.PROPS or not has_thm(pid):
        continue
    P = props.PROPS[pid]
    checks.append({
        "property_id": pid,
        "quick_cmd": f"./check {pid} quick",
        "thorough_cmd": f"./check {pid} thorough",
        "evidence_file": f"/verif/evidence/{pid}.json",
        "replay_cmd_template": f"./check {pid} --replay {{path}}",
        "engine": "lean-model+correspondence",
        "level_claimed": {
            "category": "proof",
            "text": P["level_text"],
            "design_ref": P.get("design_ref", "DESIGN.md §8 " + pid),
        },
        "level_note": P["level_note"],
        "technique": P.get("technique", "Lean 4 theorems over a hand-written model + differential correspondence model vs implementation + spec-vs-implementation finder"),
    })
na = [{"property_id": pid, "reason": props.NOT_YET.get(pid, "check not built yet (machinery under construction)")}
      for pid in ids if pid not in props.PROPS or not has_thm(pid)]
m = {
    "version": 1,
    "setup_cmd": "./check --setup",
    "hooks": {
        "guard": "ae9rb_basic_lang_verif",
        "enable": "rustc --cfg ae9rb_basic_lang_verif, set via rustflags in /verif/harness/.cargo/config.toml",
        "baseline_off_cmd": "cd /repo && cargo test --workspace --no-fail-fast --offline",
        "source_commits": hooks_commits,
        "add_only": True,
    },
    "engines": [
        {"name": "lean-model", "path": "/verif/lean", "serves_properties": [c["property_id"] for c in checks],
         "kind_free_text": "Lean 4 library BasicModel: executable model of the interpreter (Model/), specs (Spec/), property theorems (Thm/), line-protocol driver (Driver/)"},
        {"name": "vharness", "path": "/verif/harness", "serves_properties": [c["property_id"] for c in checks],
         "kind_free_text": "Rust crate with a path dependency on /repo: generators, in-process calls of the real code, canonical answers for the correspondence and the finder"},
        {"name": "check", "path": "/verif/check", "serves_properties": [c["property_id"] for c in checks],
         "kind_free_text": "python driver: tables -> lake build -> axiom audit -> cargo build -> correspondence -> finder -> known findings -> evidence"},
    ],
    "checks": checks,
    "notes": "Technique: machine-checked proof in Lean 4 over a hand-written executable model tied to /repo by a differential correspondence re-run on every check; see DESIGN.md.",
    "not_applicable": na,
}
json.dump(m, open(os.path.join(ROOT, "MANIFEST.json"), "w"), indent=1)
print("claimed:", [c["property_id"] for c in checks])
