"""Per-property configuration of ./check (layers, trusted base, assumptions)."""
import re

TB_COMMON = [
    "Lean 4.33.0 kernel (leanchecker re-check in thorough); axioms limited to propext, Classical.choice, Quot.sound (audited with #print axioms on every theorem)",
    "the hand-written Lean model /verif/lean/BasicModel/Model/*.lean, tied to /repo by the differential correspondence run by this check (Rust harness /verif/harness, rebuilt from /repo's working tree)",
    "Lean compiler/runtime for the executable driver (can hide a disagreement, cannot make a false theorem check)",
    "canonicalisation in harness/src/proto.rs and BasicModel/Proto.lean (hex strings, float bit patterns, NaN collapsed)",
]

ASSUME_FLOAT = "IEEE-754 arithmetic and libm are opaque in theorems; executable via Lean Float/Float32 (same hardware/glibc as Rust)"
ASSUME_STD = "Rust std semantics as documented (checked_* integer ops, saturating `as` casts, str::parse, char_indices) — Model/Std.lean"


def int_req(req):
    return bool(re.match(r"(OP|SPEC int) ?(add|sub|mul|divint|mod|pow|neg|abs|cint|toi16) ", req.replace("SPEC int ", "SPEC int ")))


NOT_YET = {}

PROPS = {
    "C08": {
        "level_text": "Lean theorems over all 2^16 (unary) / 2^32 (binary) Integer operands: +,-,*,\\,MOD,^,unary minus,ABS return the exact result over Int or OVERFLOW / DIVISION BY ZERO, never a fault; float->Integer is exactly floor-or-OVERFLOW on the decoded bit pattern. The model is tied to /repo by exhaustive (unary) and boundary+random (binary) differential runs, and Spec.intBin is evaluated against the implementation as finder.",
        "level_note": "Trusted: Lean kernel; axioms propext/Classical.choice/Quot.sound only; Model/Std.lean's reading of Rust's checked_* ops; the correspondence harness. Float arithmetic itself is not involved (integer decoding of bit patterns).",
        "technique": "Lean 4 proof (omega/bmod lemmas over Int16.toInt) + exhaustive/boundary differential correspondence + Int-spec finder",
        "layers": ["ops-int", "ops-conv"],
        "trusted_base": TB_COMMON + [
            "Model/Std.lean: documented meaning of i16::checked_add/sub/mul/neg/abs/div/rem/pow",
            "Model/Ieee.lean: integer decoding of IEEE-754 bit patterns (floor is exact integer arithmetic, not Float)",
        ],
        "assumptions": [ASSUME_STD, "float → Integer conversion is specified on the decoded bit pattern (exact dyadic value)"],
        "rule": "ops-int: every unary Integer op on all 65 536 values, every binary op on 39x39 boundary pairs plus random pairs (K = model vs impl; F = Spec.intBin/intUn over Int vs impl); ops-conv: conversions at every boundary ±4 ulp in f32 and f64 plus random bit patterns. distinct_nontrivial = distinct request lines whose answer is not TYPE MISMATCH",
        "nontrivial": lambda req, ans: not ans.startswith("err 13@"),
        # a model-vs-impl disagreement on an Integer operation is itself a violation of C08:
        # the model is proved (Thm/C08.lean) to be exact-or-error on these requests
        "k_is_violation": lambda req: bool(re.match(r"OP (add|sub|mul|divint|mod|neg|abs|pow) I-?\d+( I-?\d+)?$", req)) or bool(re.match(r"OP (toi16|cint) [SD]", req)),
    },
    "C07": {
        "level_text": "Lean theorems for all strings (List Char) and all Integer arguments: LEFT$/RIGHT$/MID$ equal take/drop of the documented positions or OVERFLOW, the substring search equals the least-offset search, LEN/ASC/SPC/STRING$/concatenation/comparison as documented, failures are BASIC error codes (no fault). Character-level behaviour of the UTF-8 byte-slicing Rust code is tied to the model by a full grid of 1-4 byte characters x positions {-32768..32767 boundary set} and the Spec functions are evaluated against the implementation (finder).",
        "level_note": "Partial: theorems are stated for Integer-typed position/length arguments (float arguments go through the proved floor conversion of C08); STR$/VAL/HEX$/OCT$ and the 255-character store limit are covered by correspondence only (store limit is proved under C06). Trusted: Lean kernel, Model/Std.lean reading of char_indices/str::find/str ordering, harness.",
        "technique": "Lean 4 proof over List Char + differential correspondence on a multi-byte grid + list-spec finder",
        "layers": ["ops-str"],
        "trusted_base": TB_COMMON + ["Rust str::find / char_indices / Ord for str as documented (first match, char boundaries, byte-lexicographic = code-point order)"],
        "assumptions": [ASSUME_STD, "strings in the model are lists of Unicode scalar values; the Rust code's byte offsets all come from char_indices (checked by the multi-byte grid)"],
        "partial": "float-typed arguments, STR$/VAL/HEX$/OCT$: correspondence only",
        "rule": "ops-str: 23 strings (ASCII, 2/3/4-byte, mixed, empty, 254-256 long) x 17 positions x 17 lengths for LEFT$/RIGHT$/MID$/STRING$, all pairs of 17 short strings x 12 starts for INSTR, concatenation/comparison of all pairs, CHR$/ASC around the scalar-value gaps, 48 numeric spellings for VAL, plus random strings; distinct_nontrivial = distinct request lines",
        "k_is_violation": lambda req: bool(re.match(r"OP (left|right|mid|instr|len|asc|chr|string|spc|add|lt|le|gt|ge|eq|ne) ", req)),
    },
}


def replay_session(pid, r, path, log):
    log("session replay not available for this property")
    return 2
