"""Per-property configuration of ./check lives in propcfg.py."""
from propcfg import *  # noqa: F401,F403
from propcfg import PROPS, NOT_YET, replay_session  # noqa: F401
